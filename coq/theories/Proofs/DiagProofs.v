(* C17: which codes each checker can emit, and the effect of an inline @ignore carrying exactly the displayed code. *)
From Coq Require Import List String ZArith Bool Lia.
From GG Require Import Base.Strs Model.Codes Model.IgnoreSet Model.Config Model.GoTypes Model.GoAst Model.Annots Model.Analyze Model.Impl
                       Model.Reporter Proofs.WalkProofs Proofs.ReporterProofs.
Import ListNotations.
Local Open Scope string_scope.
Local Open Scope Z_scope.

Definition codes_in (l : list string) (ds : list diag) : Prop := forall d, In d ds -> In (d_code d) l.

Lemma codes_in_nil l : codes_in l [].
Proof. intros d []. Qed.
Lemma codes_in_app l a b : codes_in l a -> codes_in l b -> codes_in l (a ++ b).
Proof. intros Ha Hb d H. apply in_app_or in H. destruct H; auto. Qed.
Lemma codes_in_flat_map {A} l (f : A -> list diag) xs : (forall x, In x xs -> codes_in l (f x)) -> codes_in l (flat_map f xs).
Proof. intros H d Hd. apply in_flat_map in Hd. destruct Hd as [x [Hx Hd]]. exact (H x Hx d Hd). Qed.
Lemma codes_in_filter l (p : diag -> bool) ds : codes_in l ds -> codes_in l (filter p ds).
Proof. intros H d Hd. apply filter_In in Hd. apply H. tauto. Qed.
Lemma codes_in_single l d : In (d_code d) l -> codes_in l [d].
Proof. intros H x [<-|[]]. exact H. Qed.

Definition IMM_CODES := ["IMM01"; "IMM02"; "IMM03"; "IMM04"].
Definition CTOR_CODES := ["CTOR01"; "CTOR02"; "CTOR03"].
Definition TONL_CODES := ["TONL01"; "TONL02"; "TONL03"].
Definition PKGO_CODES := ["PKGO01"; "PKGO02"; "PKGO03"].
Definition IMPL_CODES := ["IMPL01"; "IMPL02"; "IMPL03"].

Theorem impl_candidates_codes tt cur imps anns : codes_in IMPL_CODES (impl_candidates tt cur imps anns).
Proof.
  unfold impl_candidates. repeat apply codes_in_app; apply codes_in_flat_map; intros a _.
  - unfold impl01. destruct (ia_notfound a); [apply codes_in_single; cbn; tauto|apply codes_in_nil].
  - unfold impl02. destruct (ia_notfound a); [apply codes_in_nil|].
    destruct (find_iface tt cur imps (ia_fullpath a) (ia_iface a)); [apply codes_in_nil|apply codes_in_single; cbn; tauto].
  - unfold impl03. destruct (ia_notfound a); [apply codes_in_nil|].
    destruct (find_iface tt cur imps (ia_fullpath a) (ia_iface a)); [|apply codes_in_nil].
    destruct (find_type tt (ia_type a)); [|apply codes_in_nil].
    destruct (missing_methods t i (ia_ptr a)); [apply codes_in_nil|apply codes_in_single; cbn; tauto].
Qed.

Section Codes.
Variable fs : facts.
Variable cur cur_name : string.

Ltac one := first [apply codes_in_nil | apply codes_in_single; cbn; tauto].

Lemma imm_check_lhs_codes st e : codes_in IMM_CODES (imm_check_lhs fs cur st e).
Proof.
  unfold imm_check_lhs. destruct (n_kind e); try one.
  - destruct (imm_field_target fs cur st e); one.
  - destruct (n_children e) as [|x r]; [one|]. destruct (n_kind x); try one. destruct (imm_field_target fs cur st x); one.
  - destruct (imm_recv_target fs cur st e); one.
Qed.

Lemma imm_check_compound_codes st tok e : codes_in IMM_CODES (imm_check_compound fs cur st tok e).
Proof. unfold imm_check_compound. destruct (n_kind e); try one. destruct (imm_field_target fs cur st e); one. Qed.

Lemma imm_check_node_codes st n : codes_in IMM_CODES (imm_check_node fs cur st n).
Proof.
  unfold imm_check_node. destruct (n_kind n); try one.
  - destruct (String.eqb (a_tok (n_attrs n)) "="); apply codes_in_flat_map; intros x _;
      [apply imm_check_lhs_codes|apply imm_check_compound_codes].
  - destruct (n_children n) as [|x r]; [one|]. destruct (n_kind x); try one.
    + destruct (imm_field_target fs cur st x); one.
    + destruct (imm_recv_target fs cur st x); one.
Qed.

Lemma imm_decl_codes d : codes_in IMM_CODES (imm_decl fs cur d).
Proof.
  unfold imm_decl.
  assert (G : forall l st out, codes_in IMM_CODES out -> codes_in IMM_CODES (snd (fold_left (imm_step fs cur) l (st, out)))).
  { induction l as [|n l IH]; intros st out Ho; [exact Ho|]. cbn [fold_left]. unfold imm_step at 2.
    destruct (n_kind n); try (apply IH; apply codes_in_app; [exact Ho|apply imm_check_node_codes]).
    apply IH. exact Ho. }
  apply G. apply codes_in_nil.
Qed.

Theorem imm_candidates_codes files : codes_in IMM_CODES (imm_candidates fs cur files).
Proof.
  unfold imm_candidates. destruct (imm_index_empty fs); [apply codes_in_nil|].
  apply codes_in_flat_map. intros f _. apply codes_in_flat_map. intros d _. apply imm_decl_codes.
Qed.

Lemma ctor_viol_codes fn t pos code reason : In code CTOR_CODES -> codes_in CTOR_CODES (ctor_viol fs cur fn t pos code reason).
Proof.
  intros Hc. unfold ctor_viol. destruct t as [[p tn]|]; [|apply codes_in_nil].
  destruct (ctor_has_type fs p tn && negb (String.eqb cur p && ctor_match fs p fn tn)); [|apply codes_in_nil].
  apply codes_in_single. exact Hc.
Qed.

Lemma ctor_check_node_codes fn n : codes_in CTOR_CODES (ctor_check_node fs cur fn n).
Proof.
  unfold ctor_check_node. destruct (n_kind n); try apply codes_in_nil.
  - destruct (String.eqb (a_tok (n_attrs n)) "var"); [|apply codes_in_nil].
    apply codes_in_flat_map. intros spec _.
    destruct (kind_eqb (n_kind spec) KValueSpec && Nat.eqb (a_m (n_attrs spec)) 0); [|apply codes_in_nil].
    apply codes_in_flat_map. intros nm _. destruct (String.eqb (a_name (n_attrs nm)) "_"); [apply codes_in_nil|].
    apply ctor_viol_codes. cbn; tauto.
  - apply ctor_viol_codes. cbn; tauto.
  - destruct (n_children n) as [|f r]; [apply codes_in_nil|]. destruct (n_kind f); try apply codes_in_nil.
    destruct (String.eqb (a_name (n_attrs f)) "new" && Nat.eqb (a_n (n_attrs n)) 1); [|apply codes_in_nil].
    apply ctor_viol_codes. cbn; tauto.
Qed.

Lemma ctor_decl_codes d : codes_in CTOR_CODES (ctor_decl fs cur d).
Proof.
  unfold ctor_decl.
  assert (G : forall l fn out, codes_in CTOR_CODES out -> codes_in CTOR_CODES (snd (fold_left (ctor_step fs cur) l (fn, out)))).
  { induction l as [|n l IH]; intros fn out Ho; [exact Ho|]. cbn [fold_left]. unfold ctor_step at 2.
    destruct (n_kind n); try (apply IH; apply codes_in_app; [exact Ho|apply ctor_check_node_codes]).
    apply IH. exact Ho. }
  apply G. apply codes_in_nil.
Qed.

Theorem ctor_candidates_codes files : codes_in CTOR_CODES (ctor_candidates fs cur files).
Proof.
  unfold ctor_candidates. destruct (ctor_index_empty fs); [apply codes_in_nil|].
  apply codes_in_flat_map. intros f _. apply codes_in_flat_map. intros d _. apply ctor_decl_codes.
Qed.

(* candidates of the once-per-file checkers *)
Definition cand_codes_in (l : list string) (cs : list (diag * option (string * string))) : Prop :=
  forall c, In c cs -> In (d_code (fst c)) l.

Lemma cand_nil l : cand_codes_in l [].
Proof. intros c []. Qed.
Lemma cand_single l d k : In (d_code d) l -> cand_codes_in l [(d, k)].
Proof. intros H c [<-|[]]. exact H. Qed.
Lemma cand_flat_map {A} l (f : A -> list (diag * option (string * string))) xs :
  (forall x, In x xs -> cand_codes_in l (f x)) -> cand_codes_in l (flat_map f xs).
Proof. intros H c Hc. apply in_flat_map in Hc. destruct Hc as [x [Hx Hc]]. exact (H x Hx c Hc). Qed.

Lemma dedup_report_codes sup l cs : cand_codes_in l cs -> codes_in l (dedup_report sup cs).
Proof.
  intros H d Hd. rewrite dedup_report_rec in Hd. apply dedup_rec_spec in Hd.
  destruct Hd as (pre & k & post & -> & _). apply (H (d, k)). apply in_or_app. right. left. reflexivity.
Qed.

Ltac cone := first [apply cand_nil | apply cand_single; cbn; tauto].

Lemma tonl_type_cand_codes t pos : cand_codes_in TONL_CODES (tonl_type_cand fs t pos).
Proof. unfold tonl_type_cand. destruct (type_info t) as [[p tn]|]; [|cone]. destruct (tonl_type fs p tn); cone. Qed.

Lemma tonl_cands_codes n : cand_codes_in TONL_CODES (tonl_cands fs n).
Proof.
  unfold tonl_cands. destruct (n_kind n); try cone; try apply tonl_type_cand_codes.
  - destruct (a_flag (n_attrs n)); [apply tonl_type_cand_codes|cone].
  - destruct (n_children n) as [|f r]; [cone|]. destruct (n_kind f); try cone.
    + destruct (match n_children f with
                | x :: _ => match n_kind x, a_obj (n_attrs x) with
                            | KIdent, Some o => match o_kind o with OPkgName => Some (o_imported o) | _ => None end
                            | _, _ => None
                            end
                | [] => None
                end) as [p|].
      * destruct (tonl_func fs p (a_name (n_attrs f))); [unfold tonl_func_diag|]; cone.
      * destruct (type_info (method_recv_type f)) as [[p tn]|]; [|cone]. destruct (tonl_method fs p (a_name (n_attrs f)) tn); cone.
    + destruct (a_obj (n_attrs f)) as [o|]; [|cone]. destruct (o_kind o); try cone. destruct (o_pkg o) as [p|]; [|cone].
      destruct (negb (o_is_method o) && tonl_func fs p (o_name o)); [unfold tonl_func_diag|]; cone.
Qed.

Theorem tonl_diags_codes sup files : codes_in TONL_CODES (tonl_diags fs cur sup files).
Proof.
  unfold tonl_diags. destruct (negb (tonl_has AKType fs) && negb (tonl_has AKFunc fs) && negb (tonl_has AKMethod fs)); [apply codes_in_nil|].
  apply codes_in_flat_map. intros f _. unfold tonl_file. destruct (has_suffix "_test.go" (f_name f)); [apply codes_in_nil|].
  apply dedup_report_codes. apply cand_flat_map. intros n _. apply tonl_cands_codes.
Qed.

Lemma pkgo_obj_cand_codes o declared pos : cand_codes_in PKGO_CODES (pkgo_obj_cand fs cur cur_name o declared pos).
Proof.
  assert (T : forall p tn, cand_codes_in PKGO_CODES (pkgo_type_cand fs cur cur_name p tn pos)).
  { intros p tn. unfold pkgo_type_cand. destruct (pkgo_attach fs AKType p "" tn); [cone|].
    destruct (negb (String.eqb p cur) && negb (pkgo_allowed cur cur_name (s :: l))); cone. }
  unfold pkgo_obj_cand. destruct (o_kind o); try cone.
  - destruct (if o_is_alias o then named_direct (o_type o) else None) as [[tp tn]|]; apply T.
  - destruct (o_is_method o).
    + unfold pkgo_method_cand. destruct (pkgo_attach fs AKMethod declared (type_name (o_recv o)) (o_name o)); [cone|].
      destruct (negb (String.eqb declared cur) && negb (pkgo_allowed cur cur_name (s :: l))); cone.
    + unfold pkgo_func_cand. destruct (pkgo_attach fs AKFunc declared "" (o_name o)); [cone|].
      destruct (negb (String.eqb declared cur) && negb (pkgo_allowed cur cur_name (s :: l))); cone.
Qed.

Lemma pkgo_cands_codes n : cand_codes_in PKGO_CODES (pkgo_cands fs cur cur_name n).
Proof.
  unfold pkgo_cands. destruct (n_kind n); try cone.
  - destruct (a_obj (n_attrs n)) as [o|]; [|cone]. destruct (o_pkg o) as [p|]; [|cone].
    destruct (String.eqb p cur); [cone|apply pkgo_obj_cand_codes].
  - destruct (a_flag (n_attrs n)); [cone|]. destruct (a_obj (n_attrs n)) as [o|]; [|cone]. destruct (o_pkg o) as [p|]; [|cone].
    apply pkgo_obj_cand_codes.
Qed.

Theorem pkgo_diags_codes sup files : codes_in PKGO_CODES (pkgo_diags fs cur cur_name sup files).
Proof.
  unfold pkgo_diags. destruct (pkgo_index_empty fs); [apply codes_in_nil|].
  apply codes_in_flat_map. intros f _. unfold pkgo_file. apply dedup_report_codes. apply cand_flat_map. intros n _. apply pkgo_cands_codes.
Qed.

End Codes.

(* ---------- the help line of a rendered message ---------- *)
Definition ends_with (suf s : string) : Prop := exists pre, s = (pre ++ suf)%string.

Lemma sapp_assoc (a b c : string) : ((a ++ b) ++ c = a ++ b ++ c)%string.
Proof. induction a as [|x a IH]; simpl; [reflexivity|rewrite IH; reflexivity]. Qed.

Definition msg_of (o : outcome) : string := match o with Msg m => m | PanicSlice => EmptyString end.

Theorem format_help maxLen before after url content line col code msg m :
  format_message maxLen before after url content line col code msg = Msg m ->
  window (option_map scan_lines content) line before after <> [] ->
  ends_with ("   = help: " ++ url code ++ nl) m.
Proof.
  unfold format_message.
  destruct (window (option_map scan_lines content) line before after) as [|p r] eqn:E; [intros _ H; contradiction H; reflexivity|].
  match goal with |- context [render_lines ?w maxLen line col ?l] => destruct (render_lines w maxLen line col l) end; [|discriminate].
  intros H _. apply (f_equal msg_of) in H. cbn [msg_of] in H. rewrite <- H.
  match goal with |- ends_with ?suf (?h ++ ?a ++ ?b ++ ?c ++ ?d ++ ?e ++ ?f ++ ?g ++ ?suf') =>
    exists (h ++ a ++ b ++ c ++ d ++ e ++ f ++ g)%string end.
  rewrite !sapp_assoc. reflexivity.
Qed.
