(* Structural facts about the AST walks: the stateful walks of the immutable / constructor checkers are a
   per-node check under the context of the enclosing top-level declaration; the once-per-file filter of the
   testonly / packageonly checkers reports exactly the first unsuppressed use of each key. *)
From Coq Require Import List String ZArith Bool Lia.
From GG Require Import Base.Strs Model.GoAst Model.Annots Model.Analyze.
Import ListNotations.
Local Open Scope Z_scope.

(* a real top-level declaration contains no nested FuncDecl: function literals are FuncLit nodes *)
Definition no_inner_funcdecl (d : node) : Prop :=
  forall n, In n (preorder_list (n_children d)) -> n_kind n <> KFuncDecl.

Fixpoint no_funcdecl_b (n : node) : bool :=
  let 'Node k _ _ _ cs := n in
  negb (kind_eqb k KFuncDecl) &&
  (fix go (l : list node) : bool := match l with [] => true | c :: r => no_funcdecl_b c && go r end) cs.

Definition no_inner_funcdecl_b (d : node) : bool := forallb no_funcdecl_b (n_children d).

Lemma kind_eqb_eq a b : kind_eqb a b = true <-> a = b.
Proof. destruct a, b; simpl; split; intros H; try reflexivity; try discriminate. Qed.

Lemma no_funcdecl_b_sound n : no_funcdecl_b n = true -> forall x, In x (preorder n) -> n_kind x <> KFuncDecl.
Proof.
  induction n as [k p e a cs IH] using node_ind'.
  intros Hb x Hx. rewrite preorder_unfold in Hx. cbn [n_children] in Hx.
  cbn [no_funcdecl_b] in Hb. apply andb_true_iff in Hb. destruct Hb as [Hk Hcs].
  destruct Hx as [<-|Hx].
  - cbn [n_kind]. intros E. subst k. discriminate.
  - unfold preorder_list in Hx. apply in_flat_map in Hx. destruct Hx as [c [Hc Hx]].
    rewrite Forall_forall in IH. apply (IH c Hc); [|exact Hx].
    clear -Hcs Hc. induction cs as [|c0 r IHr]; [contradiction|].
    apply andb_true_iff in Hcs. destruct Hcs as [H1 H2]. destruct Hc as [<-|Hc]; [exact H1|apply IHr; assumption].
Qed.

Lemma no_inner_funcdecl_b_sound d : no_inner_funcdecl_b d = true -> no_inner_funcdecl d.
Proof.
  unfold no_inner_funcdecl_b, no_inner_funcdecl. intros H n Hn.
  unfold preorder_list in Hn. apply in_flat_map in Hn. destruct Hn as [c [Hc Hn]].
  rewrite forallb_forall in H. exact (no_funcdecl_b_sound c (H c Hc) n Hn).
Qed.

(* ---------- a stateful fold whose state only changes at FuncDecl nodes ---------- *)
Section StateFold.
Variables (S D : Type).
Variable upd : node -> S.                     (* the state a FuncDecl installs *)
Variable chk : S -> node -> list D.           (* the per-node check *)

Definition sstep (acc : S * list D) (n : node) : S * list D :=
  let '(st, out) := acc in
  match n_kind n with
  | KFuncDecl => (upd n, out)
  | _ => (st, (out ++ chk st n)%list)
  end.

Lemma fold_no_funcdecl l st out :
  (forall n, In n l -> n_kind n <> KFuncDecl) ->
  fold_left sstep l (st, out) = (st, (out ++ flat_map (chk st) l)%list).
Proof.
  revert out. induction l as [|n l IH]; intros out H; cbn [fold_left flat_map].
  - rewrite app_nil_r. reflexivity.
  - assert (Hn : n_kind n <> KFuncDecl) by (apply H; left; reflexivity).
    replace (sstep (st, out) n) with (st, (out ++ chk st n)%list)
      by (unfold sstep; destruct (n_kind n); try reflexivity; contradiction).
    rewrite IH by (intros x Hx; apply H; right; exact Hx).
    rewrite <- app_assoc. reflexivity.
Qed.

(* the state in force inside a top-level declaration *)
Definition decl_state (init : S) (d : node) : S :=
  match n_kind d with KFuncDecl => upd d | _ => init end.

Hypothesis chk_funcdecl : forall st n, n_kind n = KFuncDecl -> chk st n = [].

Theorem walk_is_flat_map init d :
  no_inner_funcdecl d ->
  snd (fold_left sstep (preorder d) (init, [])) = flat_map (chk (decl_state init d)) (preorder d).
Proof.
  intros H. rewrite preorder_unfold. cbn [fold_left flat_map].
  unfold decl_state. destruct (n_kind d) eqn:Ek;
    try (unfold sstep at 2; rewrite Ek; rewrite fold_no_funcdecl by exact H; reflexivity).
  unfold sstep at 2. rewrite Ek. rewrite fold_no_funcdecl by exact H.
  rewrite (chk_funcdecl _ d Ek). reflexivity.
Qed.

End StateFold.

(* ---------- once per file and key, ignore first ---------- *)
Section Dedup.
Variable suppressed : string -> Z -> bool.

Definition cand := (diag * option (string * string))%type.
Definition sup (c : cand) : bool := suppressed (d_code (fst c)) (d_pos (fst c)).

Fixpoint dedup_rec (seen : list (string * string)) (cs : list cand) : list diag :=
  match cs with
  | [] => []
  | (d, k) :: r =>
      if suppressed (d_code d) (d_pos d) then dedup_rec seen r
      else match k with
           | None => d :: dedup_rec seen r
           | Some k' => if existsb (key_eqb k') seen then dedup_rec seen r else d :: dedup_rec (k' :: seen) r
           end
  end.

Lemma dedup_fold cs : forall seen out,
  fold_left (dedup_step suppressed) cs (seen, out) =
  (fst (fold_left (dedup_step suppressed) cs (seen, out)), (out ++ dedup_rec seen cs)%list).
Proof.
  induction cs as [|[d k] r IH]; intros seen out; simpl.
  - rewrite app_nil_r. reflexivity.
  - destruct (suppressed (d_code d) (d_pos d)); [apply IH|].
    destruct k as [k'|].
    + destruct (existsb (key_eqb k') seen); [apply IH|].
      rewrite IH. simpl. rewrite <- app_assoc. reflexivity.
    + rewrite IH. simpl. rewrite <- app_assoc. reflexivity.
Qed.

Theorem dedup_report_rec cs : dedup_report suppressed cs = dedup_rec [] cs.
Proof. unfold dedup_report. rewrite dedup_fold. reflexivity. Qed.

Lemma key_eqb_eq a b : key_eqb a b = true <-> a = b.
Proof.
  unfold key_eqb. destruct a as [a1 a2], b as [b1 b2]; simpl. rewrite andb_true_iff, !String.eqb_eq.
  split; [intros [-> ->]; reflexivity|intros H; inversion H; auto].
Qed.

Lemma existsb_key k seen : existsb (key_eqb k) seen = true <-> In k seen.
Proof.
  rewrite existsb_exists. split.
  - intros [x [Hx He]]. apply key_eqb_eq in He. subst. exact Hx.
  - intros H. exists k. split; [exact H|apply key_eqb_eq; reflexivity].
Qed.

(* the reported diagnostics are exactly: the unsuppressed candidates without a key, and for each key the FIRST
   unsuppressed candidate (suppressed earlier uses do not consume the key: the report moves to the next use) *)
Theorem dedup_rec_spec cs : forall seen d,
  In d (dedup_rec seen cs) <->
  exists pre k post,
    cs = (pre ++ (d, k) :: post)%list /\ suppressed (d_code d) (d_pos d) = false /\
    match k with
    | None => True
    | Some k' => ~ In k' seen /\ forall c, In c pre -> snd c = Some k' -> sup c = true
    end.
Proof.
  induction cs as [|[d0 k0] r IH]; intros seen d; simpl.
  - split; [intros []|]. intros (pre & k & post & H & _). destruct pre; discriminate.
  - destruct (suppressed (d_code d0) (d_pos d0)) eqn:Es.
    + rewrite IH. split.
      * intros (pre & k & post & -> & Hs & Hk). exists ((d0, k0) :: pre), k, post. split; [reflexivity|]. split; [exact Hs|].
        destruct k as [k'|]; [|exact I]. destruct Hk as [H1 H2]. split; [exact H1|].
        intros c [<-|Hc] Hsnd; [unfold sup; simpl; exact Es|apply H2; assumption].
      * intros (pre & k & post & Heq & Hs & Hk). destruct pre as [|c pre].
        -- simpl in Heq. inversion Heq; subst. rewrite Es in Hs. discriminate.
        -- simpl in Heq. inversion Heq; subst. exists pre, k, post. split; [reflexivity|]. split; [exact Hs|].
           destruct k as [k'|]; [|exact I]. destruct Hk as [H1 H2]. split; [exact H1|].
           intros c Hc. apply H2. right; exact Hc.
    + destruct k0 as [k0'|].
      * destruct (existsb (key_eqb k0') seen) eqn:Ex.
        -- apply existsb_key in Ex. rewrite IH. split.
           ++ intros (pre & k & post & -> & Hs & Hk). exists ((d0, Some k0') :: pre), k, post. split; [reflexivity|]. split; [exact Hs|].
              destruct k as [k'|]; [|exact I]. destruct Hk as [H1 H2]. split; [exact H1|].
              intros c [<-|Hc] Hsnd; [|apply H2; assumption]. simpl in Hsnd. inversion Hsnd; subst. contradiction.
           ++ intros (pre & k & post & Heq & Hs & Hk). destruct pre as [|c pre].
              ** simpl in Heq. inversion Heq; subst. destruct Hk as [H1 _]. contradiction.
              ** simpl in Heq. inversion Heq; subst. exists pre, k, post. split; [reflexivity|]. split; [exact Hs|].
                 destruct k as [k'|]; [|exact I]. destruct Hk as [H1 H2]. split; [exact H1|].
                 intros c Hc. apply H2. right; exact Hc.
        -- assert (Hnot : ~ In k0' seen) by (intros Hin; apply existsb_key in Hin; rewrite Hin in Ex; discriminate).
           simpl. rewrite IH. split.
           ++ intros [<-|(pre & k & post & -> & Hs & Hk)].
              ** exists [], (Some k0'), r. split; [reflexivity|]. split; [exact Es|]. split; [exact Hnot|intros c []].
              ** exists ((d0, Some k0') :: pre), k, post. split; [reflexivity|]. split; [exact Hs|].
                 destruct k as [k'|]; [|exact I]. destruct Hk as [H1 H2]. split; [intros Hin; apply H1; right; exact Hin|].
                 intros c [<-|Hc] Hsnd; [|apply H2; assumption]. simpl in Hsnd. inversion Hsnd; subst. exfalso. apply H1. left; reflexivity.
           ++ intros (pre & k & post & Heq & Hs & Hk). destruct pre as [|c pre].
              ** simpl in Heq. inversion Heq; subst. left; reflexivity.
              ** simpl in Heq. inversion Heq; subst. right. exists pre, k, post. split; [reflexivity|]. split; [exact Hs|].
                 destruct k as [k'|]; [|exact I]. destruct Hk as [H1 H2]. split.
                 --- intros [<-|Hin]; [|contradiction].
                     specialize (H2 (d0, Some k0') (or_introl eq_refl) eq_refl). unfold sup in H2. simpl in H2. rewrite Es in H2. discriminate.
                 --- intros c Hc. apply H2. right; exact Hc.
      * simpl. rewrite IH. split.
        -- intros [<-|(pre & k & post & -> & Hs & Hk)].
           ++ exists [], None, r. split; [reflexivity|]. split; [exact Es|exact I].
           ++ exists ((d0, None) :: pre), k, post. split; [reflexivity|]. split; [exact Hs|].
              destruct k as [k'|]; [|exact I]. destruct Hk as [H1 H2]. split; [exact H1|].
              intros c [<-|Hc] Hsnd; [discriminate|apply H2; assumption].
        -- intros (pre & k & post & Heq & Hs & Hk). destruct pre as [|c pre].
           ++ simpl in Heq. inversion Heq; subst. left; reflexivity.
           ++ simpl in Heq. inversion Heq; subst. right. exists pre, k, post. split; [reflexivity|]. split; [exact Hs|].
              destruct k as [k'|]; [|exact I]. destruct Hk as [H1 H2]. split; [exact H1|].
              intros c Hc. apply H2. right; exact Hc.
Qed.

End Dedup.

(* ---------- C12: what is reported does not depend on the order of the candidates ---------- *)
Section DedupOrder.
Variable suppressed : string -> Z -> bool.
Notation sup := (sup suppressed).

(* a key is reported (some diagnostic with that key comes out) iff SOME candidate with that key is unsuppressed *)
Theorem dedup_key_reported_iff cs k :
  (exists pre d post, cs = (pre ++ (d, Some k) :: post)%list /\ In d (dedup_rec suppressed [] cs) /\
                      suppressed (d_code d) (d_pos d) = false /\
                      forall c, In c pre -> snd c = Some k -> sup c = true)
  <-> exists c, In c cs /\ snd c = Some k /\ sup c = false.
Proof.
  split.
  - intros (pre & d & post & -> & _ & Hs & _). exists (d, Some k). split; [apply in_or_app; right; left; reflexivity|]. split; [reflexivity|exact Hs].
  - intros [c [Hc [Hk Hs]]].
    (* take the first unsuppressed candidate with key k *)
    assert (Hfirst : exists pre d post, cs = (pre ++ (d, Some k) :: post)%list /\ suppressed (d_code d) (d_pos d) = false /\
                                        forall c', In c' pre -> snd c' = Some k -> sup c' = true).
    { clear -Hc Hk Hs. induction cs as [|[dx kx] r IH]; [contradiction|].
      destruct kx as [kx'|].
      - destruct (key_eqb k kx') eqn:Ek.
        + apply key_eqb_eq in Ek. subst kx'.
          destruct (suppressed (d_code dx) (d_pos dx)) eqn:Esx.
          * destruct Hc as [Hc|Hc].
            { subst c. unfold WalkProofs.sup in Hs. simpl in Hs. congruence. }
            destruct (IH Hc) as (pre & d & post & Heq & H1 & H2).
            exists ((dx, Some k) :: pre), d, post. split; [simpl; rewrite Heq; reflexivity|]. split; [exact H1|].
            intros c' [Hc'|Hc'] Hk'; [subst c'; unfold WalkProofs.sup; simpl; exact Esx|apply H2; assumption].
          * exists [], dx, r. split; [reflexivity|]. split; [exact Esx|intros c' []].
        + assert (Hne : kx' <> k) by (intros E; subst kx'; assert (key_eqb k k = true) by (apply key_eqb_eq; reflexivity); congruence).
          destruct Hc as [Hc|Hc].
          { subst c. simpl in Hk. inversion Hk. contradiction. }
          destruct (IH Hc) as (pre & d & post & Heq & H1 & H2).
          exists ((dx, Some kx') :: pre), d, post. split; [simpl; rewrite Heq; reflexivity|]. split; [exact H1|].
          intros c' [Hc'|Hc'] Hk'; [subst c'; simpl in Hk'; inversion Hk'; contradiction|apply H2; assumption].
      - destruct Hc as [Hc|Hc].
        { subst c. simpl in Hk. discriminate. }
        destruct (IH Hc) as (pre & d & post & Heq & H1 & H2).
        exists ((dx, None) :: pre), d, post. split; [simpl; rewrite Heq; reflexivity|]. split; [exact H1|].
        intros c' [Hc'|Hc'] Hk'; [subst c'; simpl in Hk'; discriminate|apply H2; assumption]. }
    destruct Hfirst as (pre & d & post & Heq & H1 & H2).
    exists pre, d, post. split; [exact Heq|]. split; [|split; [exact H1|exact H2]].
    apply dedup_rec_spec. exists pre, (Some k), post. split; [exact Heq|]. split; [exact H1|]. split; [intros []|exact H2].
Qed.

(* an unkeyed candidate is reported iff it is unsuppressed *)
Theorem dedup_unkeyed_reported_iff cs d :
  (exists pre post, cs = (pre ++ (d, None) :: post)%list /\ In d (dedup_rec suppressed [] cs) /\ suppressed (d_code d) (d_pos d) = false)
  <-> In (d, None) cs /\ suppressed (d_code d) (d_pos d) = false.
Proof.
  split.
  - intros (pre & post & -> & _ & Hs). split; [apply in_or_app; right; left; reflexivity|exact Hs].
  - intros [Hin Hs]. apply in_split in Hin. destruct Hin as (pre & post & ->).
    exists pre, post. split; [reflexivity|]. split; [|exact Hs].
    apply dedup_rec_spec. exists pre, None, post. split; [reflexivity|]. split; [exact Hs|exact I].
Qed.

End DedupOrder.
