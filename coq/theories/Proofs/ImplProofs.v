(* C05: what the @implements model computes. *)
From Coq Require Import List String Ascii ZArith Bool Lia.
From GG Require Import Base.Strs Model.GoTypes Model.GoAst Model.Annots Model.Analyze Model.Impl.
Import ListNotations.
Local Open Scope string_scope.

(* ---------- types.Identical (library model): equality of normal forms ---------- *)
Section TytInd.
Variable P : tyt -> Prop.
Hypothesis Hbasic : forall k n, P (YBasic k n).
Hypothesis Hnamed : forall p n, P (YNamed p n).
Hypothesis Hptr : forall t, P t -> P (YPtr t).
Hypothesis Hslice : forall t p, P t -> P (YSlice t p).
Hypothesis Harray : forall n t p, P t -> P (YArray n t p).
Hypothesis Hmap : forall k v p, P k -> P v -> P (YMap k v p).
Hypothesis Hchan : forall d t p, P t -> P (YChan d t p).
Hypothesis Hfunc : forall ps rs v p, Forall P ps -> Forall P rs -> P (YFunc ps rs v p).
Hypothesis Hstruct : forall m ts p, Forall P ts -> P (YStruct m ts p).
Hypothesis Hiface : forall ns ss p, Forall P ss -> P (YIface ns ss p).
Hypothesis Halias : forall p r, P r -> P (YAlias p r).
Hypothesis Hopaque : forall p, P (YOpaque p).

Fixpoint tyt_ind' (t : tyt) : P t :=
  let fix G (l : list tyt) : Forall P l := match l with [] => Forall_nil P | x :: r => Forall_cons x (tyt_ind' x) (G r) end in
  match t with
  | YBasic k n => Hbasic k n
  | YNamed p n => Hnamed p n
  | YPtr e => Hptr e (tyt_ind' e)
  | YSlice e p => Hslice e p (tyt_ind' e)
  | YArray n e p => Harray n e p (tyt_ind' e)
  | YMap k v p => Hmap k v p (tyt_ind' k) (tyt_ind' v)
  | YChan d e p => Hchan d e p (tyt_ind' e)
  | YFunc ps rs v p => Hfunc ps rs v p (G ps) (G rs)
  | YStruct m ts p => Hstruct m ts p (G ts)
  | YIface ns ss p => Hiface ns ss p (G ss)
  | YAlias p r => Halias p r (tyt_ind' r)
  | YOpaque p => Hopaque p
  end.
End TytInd.

Definition leqb : list tyt -> list tyt -> bool :=
  fix leqb (l1 l2 : list tyt) : bool :=
    match l1, l2 with
    | [], [] => true
    | x :: r, y :: s => tyt_eqb x y && leqb r s
    | _, _ => false
    end.

Lemma leqb_eq l1 : Forall (fun x => forall y, tyt_eqb x y = true <-> x = y) l1 -> forall l2, leqb l1 l2 = true <-> l1 = l2.
Proof.
  induction l1 as [|x r IH]; intros HF [|y s]; simpl; try (split; [discriminate|discriminate]); [tauto|].
  inversion HF as [|? ? Hx Hr]; subst. rewrite andb_true_iff, (Hx y), (IH Hr s). split; [intros [-> ->]; reflexivity|intros H; inversion H; auto].
Qed.

Lemma opt_str_eqb_eq a b : opt_str_eqb a b = true <-> a = b.
Proof. destruct a, b; simpl; try (split; [discriminate|discriminate]); [|tauto]. rewrite String.eqb_eq. split; [intros ->; reflexivity|intros H; inversion H; reflexivity]. Qed.

Lemma list_eqb_eq {A} (eqb : A -> A -> bool) : (forall x y, eqb x y = true <-> x = y) -> forall a b, list_eqb eqb a b = true <-> a = b.
Proof.
  intros H a. induction a as [|x r IH]; intros [|y s]; simpl; try (split; [discriminate|discriminate]); [tauto|].
  rewrite andb_true_iff, H, IH. split; [intros [-> ->]; reflexivity|intros E; inversion E; auto].
Qed.

Lemma meta_eqb_eq x y : meta_eqb x y = true <-> x = y.
Proof.
  destruct x as [[n1 e1] t1], y as [[n2 e2] t2]. simpl. rewrite !andb_true_iff, !String.eqb_eq, Bool.eqb_true_iff.
  split; [intros [[-> ->] ->]; reflexivity|intros H; inversion H; auto].
Qed.

Theorem tyt_eqb_eq a : forall b, tyt_eqb a b = true <-> a = b.
Proof.
  induction a using tyt_ind'; intros b; destruct b; cbn [tyt_eqb]; try (split; [discriminate|discriminate]).
  - rewrite andb_true_iff, !String.eqb_eq. split; [intros [-> ->]; reflexivity|intros H; inversion H; auto].
  - rewrite andb_true_iff, opt_str_eqb_eq, String.eqb_eq. split; [intros [-> ->]; reflexivity|intros H; inversion H; auto].
  - rewrite IHa. split; [intros ->; reflexivity|intros H; inversion H; auto].
  - rewrite andb_true_iff, IHa, String.eqb_eq. split; [intros [-> ->]; reflexivity|intros H; inversion H; auto].
  - rewrite !andb_true_iff, Z.eqb_eq, IHa, String.eqb_eq. split; [intros [[-> ->] ->]; reflexivity|intros H; inversion H; auto].
  - rewrite !andb_true_iff, IHa1, IHa2, String.eqb_eq. split; [intros [[-> ->] ->]; reflexivity|intros H; inversion H; auto].
  - rewrite !andb_true_iff, IHa, !String.eqb_eq. split; [intros [[-> ->] ->]; reflexivity|intros H; inversion H; auto].
  - change (leqb ps ps0 && leqb rs rs0 && Bool.eqb v variadic && String.eqb p pr = true <-> YFunc ps rs v p = YFunc ps0 rs0 variadic pr).
    rewrite !andb_true_iff, (leqb_eq ps H ps0), (leqb_eq rs H0 rs0), Bool.eqb_true_iff, String.eqb_eq.
    split; [intros [[[-> ->] ->] ->]; reflexivity|intros E; inversion E; auto].
  - change (list_eqb meta_eqb m meta && leqb ts ts0 && String.eqb p pr = true <-> YStruct m ts p = YStruct meta ts0 pr).
    rewrite !andb_true_iff, (list_eqb_eq meta_eqb meta_eqb_eq), (leqb_eq ts H ts0), String.eqb_eq.
    split; [intros [[-> ->] ->]; reflexivity|intros E; inversion E; auto].
  - change (list_eqb String.eqb ns names && leqb ss sigs && String.eqb p pr = true <-> YIface ns ss p = YIface names sigs pr).
    rewrite !andb_true_iff, (list_eqb_eq String.eqb String.eqb_eq), (leqb_eq ss H sigs), String.eqb_eq.
    split; [intros [[-> ->] ->]; reflexivity|intros E; inversion E; auto].
  - rewrite andb_true_iff, String.eqb_eq, IHa. split; [intros [-> ->]; reflexivity|intros H; inversion H; auto].
  - rewrite String.eqb_eq. split; [intros ->; reflexivity|intros H; inversion H; auto].
Qed.

(* identical types are exactly the types with the same normal form *)
Theorem identical_iff a b : identical a b = true <-> norm a = norm b.
Proof. unfold identical. apply tyt_eqb_eq. Qed.

Lemma identical_refl t : identical t t = true.
Proof. apply identical_iff. reflexivity. Qed.
Lemma identical_sym a b : identical a b = identical b a.
Proof.
  destruct (identical a b) eqn:E1, (identical b a) eqn:E2; try reflexivity.
  - apply identical_iff in E1. symmetry in E1. apply identical_iff in E1. congruence.
  - apply identical_iff in E2. symmetry in E2. apply identical_iff in E2. congruence.
Qed.
Lemma identical_trans a b c : identical a b = true -> identical b c = true -> identical a c = true.
Proof. rewrite !identical_iff. congruence. Qed.

(* aliases are transparent, on either side and at any depth *)
Lemma identical_alias_l n r t : identical (YAlias n r) t = identical r t.
Proof. reflexivity. Qed.
Lemma identical_alias_r n r t : identical t (YAlias n r) = identical t r.
Proof. reflexivity. Qed.
Lemma identical_ptr a b : identical (YPtr a) (YPtr b) = identical a b.
Proof. reflexivity. Qed.
Lemma identical_slice a b p q : identical (YSlice a p) (YSlice b q) = identical a b.
Proof. unfold identical. cbn [norm tyt_eqb]. rewrite String.eqb_refl, andb_true_r. reflexivity. Qed.

(* basic types are compared by kind: byte is uint8, rune is int32 *)
Lemma identical_basic k n1 n2 : identical (YBasic k n1) (YBasic k n2) = true.
Proof. apply identical_iff. reflexivity. Qed.

(* the pointer depth counts: *T is never T *)
Fixpoint ptr_depth (t : tyt) : nat := match t with YPtr e => S (ptr_depth e) | _ => O end.
Lemma identical_ptr_self t : identical (YPtr t) t = false.
Proof.
  apply not_true_is_false. intros H. apply identical_iff in H. cbn [norm] in H.
  apply (f_equal ptr_depth) in H. cbn [ptr_depth] in H. lia.
Qed.
Lemma identical_ptr_depth2 t : identical (YPtr (YPtr t)) (YPtr t) = false.
Proof. rewrite identical_ptr. apply identical_ptr_self. Qed.

Lemma identical_list_refl l : identical_list l l = true.
Proof. induction l as [|x l IH]; simpl; [reflexivity|]. rewrite identical_refl, IH. reflexivity. Qed.

(* ---------- signaturesMatch ---------- *)
Lemma shown_match_refl s : shown_match s s = true.
Proof. unfold shown_match. rewrite Bool.eqb_reflx, identical_refl. reflexivity. Qed.
Lemma shown_list_match_refl l : shown_list_match l l = true.
Proof. induction l as [|x l IH]; simpl; [reflexivity|]. rewrite shown_match_refl, IH. reflexivity. Qed.

(* an exact copy of a signature always matches *)
Theorem signatures_match_refl s : signatures_match s s = true.
Proof. unfold signatures_match. rewrite !Nat.eqb_refl, !shown_list_match_refl. reflexivity. Qed.

(* a match needs the same number of parameters and of results *)
Theorem signatures_match_counts t i :
  signatures_match t i = true ->
  List.length (s_params t) = List.length (s_params i) /\ List.length (s_results t) = List.length (s_results i).
Proof.
  unfold signatures_match. rewrite !andb_true_iff. intros [[[H1 H2] _] _]. split; apply Nat.eqb_eq; assumption.
Qed.

(* ---------- qualifier resolution ---------- *)
Definition binds (i : import_spec) (q : string) : Prop := (i_alias i = q /\ q <> "") \/ (i_pkgname i = q /\ q <> "").
Definition all_known (imps : list import_spec) : Prop := forall i, In i imps -> i_pkgname i <> "".

Lemma find_some_In {A} (f : A -> bool) l x : find f l = Some x -> In x l /\ f x = true.
Proof. apply find_some. Qed.

Theorem resolve_qualifier_spec cur imps q :
  q <> "" -> all_known imps ->
  (snd (resolve_qualifier cur imps q) = false <-> exists i, In i imps /\ binds i q).
Proof.
  intros Hq Hk. unfold resolve_qualifier. apply String.eqb_neq in Hq. rewrite Hq. apply String.eqb_neq in Hq.
  unfold import_find. apply String.eqb_neq in Hq. rewrite Hq. apply String.eqb_neq in Hq.
  destruct (find (fun i => negb (String.eqb (i_alias i) "") && String.eqb (i_alias i) q) imps) as [i|] eqn:E1.
  - apply find_some in E1. destruct E1 as [Hi He]. apply andb_true_iff in He. destruct He as [_ He]. apply String.eqb_eq in He.
    rewrite He, String.eqb_refl. cbn [negb andb]. rewrite andb_false_r. cbn. split; [intros _|reflexivity].
    exists i. split; [exact Hi|]. left. auto.
  - destruct (find (fun i => negb (String.eqb (i_pkgname i) "") && String.eqb (i_pkgname i) q) imps) as [i|] eqn:E2.
    + apply find_some in E2. destruct E2 as [Hi He]. apply andb_true_iff in He. destruct He as [_ He]. apply String.eqb_eq in He.
      rewrite He, String.eqb_refl. cbn [negb]. rewrite !andb_false_r. cbn. split; [intros _|reflexivity].
      exists i. split; [exact Hi|]. right. auto.
    + (* neither an alias nor a package name: whatever the path fallbacks find is rejected, every name being known *)
      assert (Hno : ~ exists i, In i imps /\ binds i q).
      { intros [i [Hi [[Ha _]|[Hp _]]]].
        - pose proof (find_none _ _ E1 i Hi) as F. cbn in F. rewrite Ha, String.eqb_refl in F.
          apply String.eqb_neq in Hq. rewrite Hq in F. discriminate.
        - pose proof (find_none _ _ E2 i Hi) as F. cbn in F. rewrite Hp, String.eqb_refl in F.
          apply String.eqb_neq in Hq. rewrite Hq in F. discriminate. }
      assert (Hrej : forall i, In i imps ->
                (if negb (String.eqb (i_pkgname i) "") && negb (String.eqb (i_alias i) q) && negb (String.eqb (i_pkgname i) q)
                 then ("", true) else (i_path i, false)) = ("", true)).
      { intros i Hi. pose proof (Hk i Hi) as Hn. apply String.eqb_neq in Hn. rewrite Hn. cbn [negb andb].
        destruct (String.eqb (i_alias i) q) eqn:Ea.
        - apply String.eqb_eq in Ea. exfalso. apply Hno. exists i. split; [exact Hi|left; auto].
        - destruct (String.eqb (i_pkgname i) q) eqn:Ep; [|reflexivity].
          apply String.eqb_eq in Ep. exfalso. apply Hno. exists i. split; [exact Hi|right; auto]. }
      destruct (find (fun i => String.eqb (i_path i) q) imps) as [i|] eqn:E3.
      * apply find_some in E3. rewrite (Hrej i (proj1 E3)). cbn. split; [discriminate|intros H; contradiction].
      * destruct (find (fun i => path_component_match (i_path i) q) imps) as [i|] eqn:E4.
        -- apply find_some in E4. rewrite (Hrej i (proj1 E4)). cbn. split; [discriminate|intros H; contradiction].
        -- cbn. split; [discriminate|intros H; contradiction].
Qed.

Theorem resolve_no_qualifier cur imps : resolve_qualifier cur imps "" = (cur, false).
Proof. reflexivity. Qed.

(* ---------- the three phases ---------- *)
Section Phases.
Variable tt : typetable.
Variable cur : string.
Variable imports : list string.

Theorem find_iface_some pkg name d :
  find_iface tt cur imports pkg name = Some d ->
  (pkg = cur \/ In pkg imports) /\ In d (tt_ifaces tt) /\ id_pkg d = pkg /\ id_name d = name.
Proof.
  unfold find_iface, scanned. destruct (String.eqb pkg cur || str_mem pkg imports) eqn:Es; [|discriminate].
  intros H. apply find_some in H. destruct H as [Hin He]. apply andb_true_iff in He. destruct He as [H1 H2].
  apply String.eqb_eq in H1. apply String.eqb_eq in H2. apply orb_true_iff in Es.
  split; [destruct Es as [E|E]; [left; apply String.eqb_eq; exact E|right; apply str_mem_In; exact E]|]. auto.
Qed.

Theorem find_iface_none pkg name :
  find_iface tt cur imports pkg name = None ->
  (pkg <> cur /\ ~ In pkg imports) \/ forall d, In d (tt_ifaces tt) -> ~ (id_pkg d = pkg /\ id_name d = name).
Proof.
  unfold find_iface, scanned. destruct (String.eqb pkg cur || str_mem pkg imports) eqn:Es.
  - intros H. right. intros d Hd [H1 H2]. pose proof (find_none _ _ H d Hd) as F. cbn in F.
    rewrite H1, H2, !String.eqb_refl in F. discriminate.
  - intros _. left. apply orb_false_iff in Es. destruct Es as [E1 E2]. split; [apply String.eqb_neq; exact E1|].
    intros Hin. apply str_mem_In in Hin. congruence.
Qed.

(* with unique method identities (every method set has them) "the last eligible method of that name" is "the eligible method of that name" *)
Lemma find_rev_unique {A K} (f : A -> bool) (key : A -> K) l x :
  NoDup (map key l) -> In x l -> f x = true -> (forall y, f y = true -> In y l -> key y = key x) -> find f (rev l) = Some x.
Proof.
  intros Hnd Hin Hf Hkey.
  destruct (find f (rev l)) as [y|] eqn:E.
  - apply find_some in E. destruct E as [Hy Hfy]. apply in_rev in Hy.
    assert (Hk : key y = key x) by (apply Hkey; assumption).
    f_equal. clear -Hnd Hin Hy Hk. induction l as [|a l IH]; [contradiction|].
    simpl in Hnd. inversion Hnd as [|? ? Hna Hnd']; subst.
    destruct Hin as [->|Hin], Hy as [->|Hy]; auto.
    + exfalso. apply Hna. rewrite <- Hk. apply in_map. exact Hy.
    + exfalso. apply Hna. rewrite Hk. apply in_map. exact Hin.
  - exfalso. pose proof (find_none _ _ E x) as F. rewrite Hf in F. assert (In x (rev l)) by (apply in_rev; rewrite rev_involutive; exact Hin).
    specialize (F H). discriminate.
Qed.

Definition in_mset (td : type_decl) (require_ptr : bool) (tm : tmethod) : Prop :=
  In tm (td_methods td) /\ (require_ptr = true \/ tm_value tm = true).

Theorem method_ok_spec td require_ptr im :
  NoDup (map tm_id (td_methods td)) ->
  (method_ok td require_ptr im = true <->
   exists tm, in_mset td require_ptr tm /\ tm_id tm = im_id im /\ signatures_match (tm_sig tm) (im_sig im) = true).
Proof.
  intros Hnd. unfold method_ok, lookup_method. split.
  - destruct (find _ (rev (td_methods td))) as [tm|] eqn:E; [|discriminate].
    intros Hm. apply find_some in E. destruct E as [Hin He]. apply in_rev in Hin. apply andb_true_iff in He. destruct He as [H1 H2].
    apply andb_true_iff in H2. destruct H2 as [H2 H3]. apply String.eqb_eq in H2, H3.
    exists tm. split; [split; [exact Hin|unfold eligible in H1; apply orb_true_iff in H1; exact H1]|]. split; [unfold tm_id, im_id; congruence|exact Hm].
  - intros [tm [[Hin Hel] [Hn Hm]]]. unfold tm_id, im_id in Hn. injection Hn as Hp Hn.
    rewrite (find_rev_unique (fun m => eligible require_ptr m && (String.eqb (tm_pkg m) (im_pkg im) && String.eqb (tm_name m) (im_name im))) tm_id (td_methods td) tm Hnd Hin).
    + exact Hm.
    + unfold eligible. apply andb_true_iff. split; [apply orb_true_iff; exact Hel|]. apply andb_true_iff. split; apply String.eqb_eq; assumption.
    + intros y Hy _. apply andb_true_iff in Hy. destruct Hy as [_ Hy]. apply andb_true_iff in Hy. destruct Hy as [Hy1 Hy2].
      apply String.eqb_eq in Hy1, Hy2. unfold tm_id. congruence.
Qed.

(* the listed methods: exactly the interface's methods, in the interface's order, that have no counterpart *)
Theorem missing_methods_spec td d require_ptr im :
  In im (missing_methods td d require_ptr) <-> In im (id_methods d) /\ method_ok td require_ptr im = false.
Proof. unfold missing_methods. rewrite filter_In, negb_true_iff. reflexivity. Qed.

Definition has_code (ds : list diag) (c : string) : Prop := exists d, In d ds /\ d_code d = c.

Theorem impl01_iff a : has_code (impl01 a) "IMPL01" <-> ia_notfound a = true.
Proof.
  unfold impl01, has_code. destruct (ia_notfound a); split; auto.
  - intros _. eexists. split; [left; reflexivity|reflexivity].
  - intros [d [[] _]].
  - discriminate.
Qed.

Theorem impl02_iff a :
  (exists d, In d (impl02 tt cur imports a)) <-> ia_notfound a = false /\ find_iface tt cur imports (ia_fullpath a) (ia_iface a) = None.
Proof.
  unfold impl02. destruct (ia_notfound a).
  - split; [intros [d []]|intros [H _]; discriminate].
  - destruct (find_iface tt cur imports (ia_fullpath a) (ia_iface a)).
    + split; [intros [d []]|intros [_ H]; discriminate].
    + split; [auto|intros _; eexists; left; reflexivity].
Qed.

Theorem impl03_iff a :
  (exists d, In d (impl03 tt cur imports a)) <->
  ia_notfound a = false /\
  exists di td, find_iface tt cur imports (ia_fullpath a) (ia_iface a) = Some di /\ find_type tt (ia_type a) = Some td /\
                missing_methods td di (ia_ptr a) <> [].
Proof.
  unfold impl03. destruct (ia_notfound a).
  - split; [intros [d []]|intros [H _]; discriminate].
  - destruct (find_iface tt cur imports (ia_fullpath a) (ia_iface a)) as [di|].
    + destruct (find_type tt (ia_type a)) as [td|].
      * destruct (missing_methods td di (ia_ptr a)) as [|m ms] eqn:E.
        -- split; [intros [d []]|]. intros [_ [di' [td' [H1 [H2 H3]]]]]. inversion H1; inversion H2; subst. congruence.
        -- split; [|intros _; eexists; left; reflexivity]. intros _. split; [reflexivity|]. exists di, td. rewrite E. repeat split; discriminate.
      * split; [intros [d []]|]. intros [_ [di' [td' [_ [H _]]]]]. discriminate.
    + split; [intros [d []]|]. intros [_ [di' [td' [H _]]]]. discriminate.
Qed.

(* at most one phase speaks for an annotation; a correct annotation is silent *)
Theorem phases_exclusive a :
  match impl01 a, impl02 tt cur imports a, impl03 tt cur imports a with
  | [], [], _ | [], _, [] | _, [], [] => True
  | _, _, _ => False
  end.
Proof.
  unfold impl01, impl02, impl03. destruct (ia_notfound a); [exact I|].
  destruct (find_iface tt cur imports (ia_fullpath a) (ia_iface a)); [|exact I].
  destruct (find_type tt (ia_type a)); [|exact I]. destruct (missing_methods t i (ia_ptr a)); exact I.
Qed.

Theorem correct_annotation_is_silent a di td :
  ia_notfound a = false -> find_iface tt cur imports (ia_fullpath a) (ia_iface a) = Some di -> find_type tt (ia_type a) = Some td ->
  (forall im, In im (id_methods di) -> method_ok td (ia_ptr a) im = true) ->
  impl01 a = [] /\ impl02 tt cur imports a = [] /\ impl03 tt cur imports a = [].
Proof.
  intros H1 H2 H3 H4. unfold impl01, impl02, impl03. rewrite H1, H2, H3.
  assert (E : missing_methods td di (ia_ptr a) = []).
  { unfold missing_methods. induction (id_methods di) as [|m ms IH]; [reflexivity|]. simpl. rewrite (H4 m (or_introl eq_refl)). simpl. apply IH.
    intros im Him. apply H4. right. exact Him. }
  rewrite E. auto.
Qed.

End Phases.

(* every @implements diagnostic sits at the position of one of the package's own @implements annotations *)
Theorem impl_diag_at_annotation tt cur imports anns d :
  In d (impl_candidates tt cur imports anns) -> exists a, In a anns /\ d_pos d = ia_pos a.
Proof.
  unfold impl_candidates. intros H. repeat (apply in_app_or in H; destruct H as [H|H]); apply in_flat_map in H; destruct H as [a [Ha H]]; exists a; (split; [exact Ha|]).
  - unfold impl01 in H. destruct (ia_notfound a); [destruct H as [<-|[]]; reflexivity|contradiction].
  - unfold impl02 in H. destruct (ia_notfound a); [contradiction|]. destruct (find_iface tt cur imports (ia_fullpath a) (ia_iface a)); [contradiction|].
    destruct H as [<-|[]]. reflexivity.
  - unfold impl03 in H. destruct (ia_notfound a); [contradiction|]. destruct (find_iface tt cur imports (ia_fullpath a) (ia_iface a)); [|contradiction].
    destruct (find_type tt (ia_type a)); [|contradiction]. destruct (missing_methods t i (ia_ptr a)); [contradiction|]. destruct H as [<-|[]]. reflexivity.
Qed.

(* ---------- signaturesMatch, declaratively ---------- *)
Definition shown_same (a b : shown) : Prop := sh_variadic a = sh_variadic b /\ norm (sh_ty a) = norm (sh_ty b).

Lemma shown_match_spec a b : shown_match a b = true <-> shown_same a b.
Proof. unfold shown_match, shown_same. rewrite andb_true_iff, Bool.eqb_true_iff, identical_iff. reflexivity. Qed.

Lemma shown_list_match_spec l1 : forall l2, shown_list_match l1 l2 = true <-> Forall2 shown_same l1 l2.
Proof.
  induction l1 as [|x r IH]; intros [|y s]; simpl.
  - split; [constructor|reflexivity].
  - split; [discriminate|intros H; inversion H].
  - split; [discriminate|intros H; inversion H].
  - rewrite andb_true_iff, shown_match_spec, IH. split; [intros [H1 H2]; constructor; assumption|intros H; inversion H; auto].
Qed.

(* a method of the type matches an interface method iff they have as many parameters and results and, position by position,
   the same variadicity and identical types (the variadic parameter compared by its element type) *)
Theorem signatures_match_spec t i :
  signatures_match t i = true <->
  List.length (s_params t) = List.length (s_params i) /\ List.length (s_results t) = List.length (s_results i) /\
  Forall2 shown_same (tuple_types (s_params t) (s_variadic t)) (tuple_types (s_params i) (s_variadic i)) /\
  Forall2 shown_same (tuple_types (s_results t) false) (tuple_types (s_results i) false).
Proof.
  unfold signatures_match. rewrite !andb_true_iff, !Nat.eqb_eq, !shown_list_match_spec. tauto.
Qed.
