(* C05: what the @implements model computes. *)
From Coq Require Import List String Ascii ZArith Bool Lia.
From GG Require Import Base.Strs Model.GoTypes Model.GoAst Model.Annots Model.Analyze Model.Impl.
Import ListNotations.
Local Open Scope string_scope.

(* ---------- types.Identical (library model) ---------- *)
Lemma identical_refl t : identical t t = true.
Proof. apply String.eqb_refl. Qed.
Lemma identical_sym a b : identical a b = identical b a.
Proof. apply String.eqb_sym. Qed.
Lemma identical_trans a b c : identical a b = true -> identical b c = true -> identical a c = true.
Proof. unfold identical. rewrite !String.eqb_eq. congruence. Qed.

(* aliases are transparent, on either side and at any depth below pointers *)
Lemma identical_alias_l n r t : identical (YAlias n r) t = identical r t.
Proof. reflexivity. Qed.
Lemma identical_alias_r n r t : identical t (YAlias n r) = identical t r.
Proof. reflexivity. Qed.
Lemma identical_ptr a b : identical (YPtr a) (YPtr b) = identical a b.
Proof. unfold identical. cbn [canon]. cbn. reflexivity. Qed.
Lemma identical_slice a b p q : identical (YSlice a p) (YSlice b q) = identical a b.
Proof. unfold identical. cbn [canon]. cbn. reflexivity. Qed.

(* basic types are compared by kind: byte is uint8, rune is int32 *)
Lemma identical_basic k n1 n2 : identical (YBasic k n1) (YBasic k n2) = true.
Proof. apply String.eqb_refl. Qed.

(* the pointer depth counts: *T is never T *)
Lemma length_app (a b : string) : String.length (a ++ b) = (String.length a + String.length b)%nat.
Proof. induction a; simpl; auto. Qed.
Lemma identical_ptr_self t : identical (YPtr t) t = false.
Proof.
  unfold identical. apply String.eqb_neq. cbn [canon]. intros H. apply (f_equal String.length) in H. simpl in H. lia.
Qed.
Lemma identical_ptr_depth2 t : identical (YPtr (YPtr t)) (YPtr t) = false.
Proof. rewrite identical_ptr. apply identical_ptr_self. Qed.

Lemma identical_list_refl l : identical_list l l = true.
Proof. induction l as [|x l IH]; simpl; [reflexivity|]. rewrite identical_refl, IH. reflexivity. Qed.

(* ---------- signaturesMatch ---------- *)
Lemma shown_match_refl s : shown_match s s = true.
Proof. unfold shown_match. rewrite Bool.eqb_reflx, identical_refl. reflexivity. Qed.
Lemma shown_list_match_refl l : shown_list_match l l = true.
Proof. induction l as [|x l IH]; simpl; [reflexivity|]. rewrite shown_match_refl, IH. reflexivity. Qed.

(* an exact copy of a signature always matches *)
Theorem signatures_match_refl s : signatures_match s s = true.
Proof. unfold signatures_match. rewrite !Nat.eqb_refl, !shown_list_match_refl. reflexivity. Qed.

(* a match needs the same number of parameters and of results *)
Theorem signatures_match_counts t i :
  signatures_match t i = true ->
  List.length (s_params t) = List.length (s_params i) /\ List.length (s_results t) = List.length (s_results i).
Proof.
  unfold signatures_match. rewrite !andb_true_iff. intros [[[H1 H2] _] _]. split; apply Nat.eqb_eq; assumption.
Qed.

(* ---------- qualifier resolution ---------- *)
Definition binds (i : import_spec) (q : string) : Prop := (i_alias i = q /\ q <> "") \/ (i_pkgname i = q /\ q <> "").
Definition all_known (imps : list import_spec) : Prop := forall i, In i imps -> i_pkgname i <> "".

Lemma find_some_In {A} (f : A -> bool) l x : find f l = Some x -> In x l /\ f x = true.
Proof. apply find_some. Qed.

Theorem resolve_qualifier_spec cur imps q :
  q <> "" -> all_known imps ->
  (snd (resolve_qualifier cur imps q) = false <-> exists i, In i imps /\ binds i q).
Proof.
  intros Hq Hk. unfold resolve_qualifier. apply String.eqb_neq in Hq. rewrite Hq. apply String.eqb_neq in Hq.
  unfold import_find. apply String.eqb_neq in Hq. rewrite Hq. apply String.eqb_neq in Hq.
  destruct (find (fun i => negb (String.eqb (i_alias i) "") && String.eqb (i_alias i) q) imps) as [i|] eqn:E1.
  - apply find_some in E1. destruct E1 as [Hi He]. apply andb_true_iff in He. destruct He as [_ He]. apply String.eqb_eq in He.
    rewrite He, String.eqb_refl. cbn [negb andb]. rewrite andb_false_r. cbn. split; [intros _|reflexivity].
    exists i. split; [exact Hi|]. left. auto.
  - destruct (find (fun i => negb (String.eqb (i_pkgname i) "") && String.eqb (i_pkgname i) q) imps) as [i|] eqn:E2.
    + apply find_some in E2. destruct E2 as [Hi He]. apply andb_true_iff in He. destruct He as [_ He]. apply String.eqb_eq in He.
      rewrite He, String.eqb_refl. cbn [negb]. rewrite !andb_false_r. cbn. split; [intros _|reflexivity].
      exists i. split; [exact Hi|]. right. auto.
    + (* neither an alias nor a package name: whatever the path fallbacks find is rejected, every name being known *)
      assert (Hno : ~ exists i, In i imps /\ binds i q).
      { intros [i [Hi [[Ha _]|[Hp _]]]].
        - pose proof (find_none _ _ E1 i Hi) as F. cbn in F. rewrite Ha, String.eqb_refl in F.
          apply String.eqb_neq in Hq. rewrite Hq in F. discriminate.
        - pose proof (find_none _ _ E2 i Hi) as F. cbn in F. rewrite Hp, String.eqb_refl in F.
          apply String.eqb_neq in Hq. rewrite Hq in F. discriminate. }
      assert (Hrej : forall i, In i imps ->
                (if negb (String.eqb (i_pkgname i) "") && negb (String.eqb (i_alias i) q) && negb (String.eqb (i_pkgname i) q)
                 then ("", true) else (i_path i, false)) = ("", true)).
      { intros i Hi. pose proof (Hk i Hi) as Hn. apply String.eqb_neq in Hn. rewrite Hn. cbn [negb andb].
        destruct (String.eqb (i_alias i) q) eqn:Ea.
        - apply String.eqb_eq in Ea. exfalso. apply Hno. exists i. split; [exact Hi|left; auto].
        - destruct (String.eqb (i_pkgname i) q) eqn:Ep; [|reflexivity].
          apply String.eqb_eq in Ep. exfalso. apply Hno. exists i. split; [exact Hi|right; auto]. }
      destruct (find (fun i => String.eqb (i_path i) q) imps) as [i|] eqn:E3.
      * apply find_some in E3. rewrite (Hrej i (proj1 E3)). cbn. split; [discriminate|intros H; contradiction].
      * destruct (find (fun i => path_component_match (i_path i) q) imps) as [i|] eqn:E4.
        -- apply find_some in E4. rewrite (Hrej i (proj1 E4)). cbn. split; [discriminate|intros H; contradiction].
        -- cbn. split; [discriminate|intros H; contradiction].
Qed.

Theorem resolve_no_qualifier cur imps : resolve_qualifier cur imps "" = (cur, false).
Proof. reflexivity. Qed.

(* ---------- the three phases ---------- *)
Section Phases.
Variable tt : typetable.
Variable cur : string.
Variable imports : list string.

Theorem find_iface_some pkg name d :
  find_iface tt cur imports pkg name = Some d ->
  (pkg = cur \/ In pkg imports) /\ In d (tt_ifaces tt) /\ id_pkg d = pkg /\ id_name d = name.
Proof.
  unfold find_iface, scanned. destruct (String.eqb pkg cur || str_mem pkg imports) eqn:Es; [|discriminate].
  intros H. apply find_some in H. destruct H as [Hin He]. apply andb_true_iff in He. destruct He as [H1 H2].
  apply String.eqb_eq in H1. apply String.eqb_eq in H2. apply orb_true_iff in Es.
  split; [destruct Es as [E|E]; [left; apply String.eqb_eq; exact E|right; apply str_mem_In; exact E]|]. auto.
Qed.

Theorem find_iface_none pkg name :
  find_iface tt cur imports pkg name = None ->
  (pkg <> cur /\ ~ In pkg imports) \/ forall d, In d (tt_ifaces tt) -> ~ (id_pkg d = pkg /\ id_name d = name).
Proof.
  unfold find_iface, scanned. destruct (String.eqb pkg cur || str_mem pkg imports) eqn:Es.
  - intros H. right. intros d Hd [H1 H2]. pose proof (find_none _ _ H d Hd) as F. cbn in F.
    rewrite H1, H2, !String.eqb_refl in F. discriminate.
  - intros _. left. apply orb_false_iff in Es. destruct Es as [E1 E2]. split; [apply String.eqb_neq; exact E1|].
    intros Hin. apply str_mem_In in Hin. congruence.
Qed.

(* with unique method names (every method set has them) "the last eligible method of that name" is "the eligible method of that name" *)
Lemma find_rev_unique {A} (f : A -> bool) (key : A -> string) l x :
  NoDup (map key l) -> In x l -> f x = true -> (forall y, f y = true -> In y l -> key y = key x) -> find f (rev l) = Some x.
Proof.
  intros Hnd Hin Hf Hkey.
  destruct (find f (rev l)) as [y|] eqn:E.
  - apply find_some in E. destruct E as [Hy Hfy]. apply in_rev in Hy.
    assert (Hk : key y = key x) by (apply Hkey; assumption).
    f_equal. clear -Hnd Hin Hy Hk. induction l as [|a l IH]; [contradiction|].
    simpl in Hnd. inversion Hnd as [|? ? Hna Hnd']; subst.
    destruct Hin as [->|Hin], Hy as [->|Hy]; auto.
    + exfalso. apply Hna. rewrite <- Hk. apply in_map. exact Hy.
    + exfalso. apply Hna. rewrite Hk. apply in_map. exact Hin.
  - exfalso. pose proof (find_none _ _ E x) as F. rewrite Hf in F. assert (In x (rev l)) by (apply in_rev; rewrite rev_involutive; exact Hin).
    specialize (F H). discriminate.
Qed.

Definition in_mset (td : type_decl) (require_ptr : bool) (tm : tmethod) : Prop :=
  In tm (td_methods td) /\ (require_ptr = true \/ tm_value tm = true).

Theorem method_ok_spec td require_ptr im :
  NoDup (map tm_name (td_methods td)) ->
  (method_ok td require_ptr im = true <->
   exists tm, in_mset td require_ptr tm /\ tm_name tm = im_name im /\ signatures_match (tm_sig tm) (im_sig im) = true).
Proof.
  intros Hnd. unfold method_ok, lookup_method. split.
  - destruct (find _ (rev (td_methods td))) as [tm|] eqn:E; [|discriminate].
    intros Hm. apply find_some in E. destruct E as [Hin He]. apply in_rev in Hin. apply andb_true_iff in He. destruct He as [H1 H2].
    exists tm. split; [split; [exact Hin|unfold eligible in H1; apply orb_true_iff in H1; exact H1]|]. split; [apply String.eqb_eq; exact H2|exact Hm].
  - intros [tm [[Hin Hel] [Hn Hm]]].
    rewrite (find_rev_unique (fun m => eligible require_ptr m && String.eqb (tm_name m) (im_name im)) tm_name (td_methods td) tm Hnd Hin).
    + exact Hm.
    + unfold eligible. apply andb_true_iff. split; [apply orb_true_iff; exact Hel|apply String.eqb_eq; exact Hn].
    + intros y Hy _. apply andb_true_iff in Hy. destruct Hy as [_ Hy]. apply String.eqb_eq in Hy. congruence.
Qed.

(* the listed methods: exactly the interface's methods, in the interface's order, that have no counterpart *)
Theorem missing_methods_spec td d require_ptr im :
  In im (missing_methods td d require_ptr) <-> In im (id_methods d) /\ method_ok td require_ptr im = false.
Proof. unfold missing_methods. rewrite filter_In, negb_true_iff. reflexivity. Qed.

Definition has_code (ds : list diag) (c : string) : Prop := exists d, In d ds /\ d_code d = c.

Theorem impl01_iff a : has_code (impl01 a) "IMPL01" <-> ia_notfound a = true.
Proof.
  unfold impl01, has_code. destruct (ia_notfound a); split; auto.
  - intros _. eexists. split; [left; reflexivity|reflexivity].
  - intros [d [[] _]].
  - discriminate.
Qed.

Theorem impl02_iff a :
  (exists d, In d (impl02 tt cur imports a)) <-> ia_notfound a = false /\ find_iface tt cur imports (ia_fullpath a) (ia_iface a) = None.
Proof.
  unfold impl02. destruct (ia_notfound a).
  - split; [intros [d []]|intros [H _]; discriminate].
  - destruct (find_iface tt cur imports (ia_fullpath a) (ia_iface a)).
    + split; [intros [d []]|intros [_ H]; discriminate].
    + split; [auto|intros _; eexists; left; reflexivity].
Qed.

Theorem impl03_iff a :
  (exists d, In d (impl03 tt cur imports a)) <->
  ia_notfound a = false /\
  exists di td, find_iface tt cur imports (ia_fullpath a) (ia_iface a) = Some di /\ find_type tt (ia_type a) = Some td /\
                missing_methods td di (ia_ptr a) <> [].
Proof.
  unfold impl03. destruct (ia_notfound a).
  - split; [intros [d []]|intros [H _]; discriminate].
  - destruct (find_iface tt cur imports (ia_fullpath a) (ia_iface a)) as [di|].
    + destruct (find_type tt (ia_type a)) as [td|].
      * destruct (missing_methods td di (ia_ptr a)) as [|m ms] eqn:E.
        -- split; [intros [d []]|]. intros [_ [di' [td' [H1 [H2 H3]]]]]. inversion H1; inversion H2; subst. congruence.
        -- split; [|intros _; eexists; left; reflexivity]. intros _. split; [reflexivity|]. exists di, td. rewrite E. repeat split; discriminate.
      * split; [intros [d []]|]. intros [_ [di' [td' [_ [H _]]]]]. discriminate.
    + split; [intros [d []]|]. intros [_ [di' [td' [H _]]]]. discriminate.
Qed.

(* at most one phase speaks for an annotation; a correct annotation is silent *)
Theorem phases_exclusive a :
  match impl01 a, impl02 tt cur imports a, impl03 tt cur imports a with
  | [], [], _ | [], _, [] | _, [], [] => True
  | _, _, _ => False
  end.
Proof.
  unfold impl01, impl02, impl03. destruct (ia_notfound a); [exact I|].
  destruct (find_iface tt cur imports (ia_fullpath a) (ia_iface a)); [|exact I].
  destruct (find_type tt (ia_type a)); [|exact I]. destruct (missing_methods t i (ia_ptr a)); exact I.
Qed.

Theorem correct_annotation_is_silent a di td :
  ia_notfound a = false -> find_iface tt cur imports (ia_fullpath a) (ia_iface a) = Some di -> find_type tt (ia_type a) = Some td ->
  (forall im, In im (id_methods di) -> method_ok td (ia_ptr a) im = true) ->
  impl01 a = [] /\ impl02 tt cur imports a = [] /\ impl03 tt cur imports a = [].
Proof.
  intros H1 H2 H3 H4. unfold impl01, impl02, impl03. rewrite H1, H2, H3.
  assert (E : missing_methods td di (ia_ptr a) = []).
  { unfold missing_methods. induction (id_methods di) as [|m ms IH]; [reflexivity|]. simpl. rewrite (H4 m (or_introl eq_refl)). simpl. apply IH.
    intros im Him. apply H4. right. exact Him. }
  rewrite E. auto.
Qed.

End Phases.

(* every @implements diagnostic sits at the position of one of the package's own @implements annotations *)
Theorem impl_diag_at_annotation tt cur imports anns d :
  In d (impl_candidates tt cur imports anns) -> exists a, In a anns /\ d_pos d = ia_pos a.
Proof.
  unfold impl_candidates. intros H. repeat (apply in_app_or in H; destruct H as [H|H]); apply in_flat_map in H; destruct H as [a [Ha H]]; exists a; (split; [exact Ha|]).
  - unfold impl01 in H. destruct (ia_notfound a); [destruct H as [<-|[]]; reflexivity|contradiction].
  - unfold impl02 in H. destruct (ia_notfound a); [contradiction|]. destruct (find_iface tt cur imports (ia_fullpath a) (ia_iface a)); [contradiction|].
    destruct H as [<-|[]]. reflexivity.
  - unfold impl03 in H. destruct (ia_notfound a); [contradiction|]. destruct (find_iface tt cur imports (ia_fullpath a) (ia_iface a)); [|contradiction].
    destruct (find_type tt (ia_type a)); [|contradiction]. destruct (missing_methods t i (ia_ptr a)); [contradiction|]. destruct H as [<-|[]]. reflexivity.
Qed.
