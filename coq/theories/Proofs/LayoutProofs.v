(* C12: positions are opaque to the four AST checkers.  Relabelling every position of a package by ANY function
   relabels the diagnostics and changes nothing else (blank lines, comments, gofmt are such relabellings). *)
From Coq Require Import List String ZArith Bool.
From GG Require Import Base.Strs Model.Codes Model.IgnoreSet Model.Config Model.GoTypes Model.GoAst Model.Annots Model.Analyze Proofs.WalkProofs.
Import ListNotations.
Local Open Scope string_scope.

Section Relabel.
Variable phi : Z -> Z.

Fixpoint rl (n : node) : node :=
  let 'Node k p e a cs := n in Node k (phi p) (phi e) a (map rl cs).

Definition rd (d : diag) : diag := {| d_pos := phi (d_pos d); d_code := d_code d; d_msg := d_msg d |}.
Definition rc (c : diag * option (string * string)) : diag * option (string * string) := (rd (fst c), snd c).

Lemma rl_kind n : n_kind (rl n) = n_kind n. Proof. destruct n; reflexivity. Qed.
Lemma rl_attrs n : n_attrs (rl n) = n_attrs n. Proof. destruct n; reflexivity. Qed.
Lemma rl_pos n : n_pos (rl n) = phi (n_pos n). Proof. destruct n; reflexivity. Qed.
Lemma rl_children n : n_children (rl n) = map rl (n_children n). Proof. destruct n; reflexivity. Qed.

Lemma preorder_rl n : preorder (rl n) = map rl (preorder n).
Proof.
  induction n as [k p e a cs IH] using node_ind'. rewrite (preorder_unfold (rl (Node k p e a cs))), (preorder_unfold (Node k p e a cs)).
  cbn [map]. f_equal. rewrite rl_children. cbn [n_children]. unfold preorder_list.
  induction cs as [|c r IHr]; [reflexivity|]. inversion IH as [|? ? Hc Hr]; subst. cbn [map flat_map]. rewrite map_app, Hc, (IHr Hr). reflexivity.
Qed.

Lemma preorder_list_rl l : preorder_list (map rl l) = map rl (preorder_list l).
Proof. unfold preorder_list. induction l as [|c r IH]; [reflexivity|]. cbn [map flat_map]. rewrite map_app, preorder_rl, IH. reflexivity. Qed.

Lemma firstn_map {A B} (f : A -> B) k l : firstn k (map f l) = map f (firstn k l).
Proof. revert l. induction k as [|k IH]; intros [|x l]; simpl; [reflexivity|reflexivity|reflexivity|f_equal; apply IH]. Qed.

Lemma filter_map_rl (p : node -> bool) l : (forall n, p (rl n) = p n) -> filter p (map rl l) = map rl (filter p l).
Proof. intros H. induction l as [|x l IH]; simpl; [reflexivity|]. rewrite H. destruct (p x); simpl; [f_equal|]; exact IH. Qed.

Lemma plain_children_rl n : plain_children (rl n) = map rl (plain_children n).
Proof. unfold plain_children. rewrite rl_children. apply filter_map_rl. intros m. unfold non_comment. rewrite rl_kind. reflexivity. Qed.

Lemma flat_map_map {A B C} (f : B -> list C) (g : A -> B) l : flat_map f (map g l) = flat_map (fun x => f (g x)) l.
Proof. induction l as [|x l IH]; simpl; [reflexivity|rewrite IH; reflexivity]. Qed.

Lemma flat_map_rd {A} (f g : A -> list diag) l : (forall x, f x = map rd (g x)) -> flat_map f l = map rd (flat_map g l).
Proof. intros H. induction l as [|x l IH]; simpl; [reflexivity|]. rewrite map_app, H, IH. reflexivity. Qed.

Lemma flat_map_rc {A} (f g : A -> list (diag * option (string * string))) l : (forall x, f x = map rc (g x)) -> flat_map f l = map rc (flat_map g l).
Proof. intros H. induction l as [|x l IH]; simpl; [reflexivity|]. rewrite map_app, H, IH. reflexivity. Qed.

Section Checkers.
(* fs: the facts of the original run; fs': the facts of the relabelled run - they may differ (the positions recorded in the
   package's own annotations move too) as long as every index answers alike *)
Variable fs fs' : facts.
Variable cur cur_name : string.
Hypothesis Hic : forall p t, imm_contains fs' p t = imm_contains fs p t.
Hypothesis Hmm : forall p f t, mut_match fs' p f t = mut_match fs p f t.
Hypothesis Hcn : forall p t, ctor_names fs' p t = ctor_names fs p t.
Hypothesis Htt : forall p t, tonl_type fs' p t = tonl_type fs p t.
Hypothesis Htf : forall p f, tonl_func fs' p f = tonl_func fs p f.
Hypothesis Htm : forall p m r, tonl_method fs' p m r = tonl_method fs p m r.
Hypothesis Hpa : forall k p r n, pkgo_attach fs' k p r n = pkgo_attach fs k p r n.
Hypothesis Hie : imm_index_empty fs' = imm_index_empty fs.
Hypothesis Hce : ctor_index_empty fs' = ctor_index_empty fs.
Hypothesis Hth : forall k, tonl_has k fs' = tonl_has k fs.
Hypothesis Hpe : pkgo_index_empty fs' = pkgo_index_empty fs.

Lemma in_ctor_agree st p t : in_ctor fs' cur st p t = in_ctor fs cur st p t.
Proof. unfold in_ctor, ctor_match. rewrite Hcn. reflexivity. Qed.

(* --- immutable --- *)
Lemma field_target_rl st sel : imm_field_target fs' cur st (rl sel) = imm_field_target fs cur st sel.
Proof.
  unfold imm_field_target. rewrite rl_attrs. destruct (type_info (a_ty (n_attrs sel))) as [[p t]|]; [|reflexivity].
  rewrite Hic, Hmm, in_ctor_agree. reflexivity.
Qed.

Lemma recv_target_rl st star : imm_recv_target fs' cur st (rl star) = imm_recv_target fs cur st star.
Proof.
  unfold imm_recv_target. rewrite rl_children. destruct (is_recv st) as [ri|]; [|reflexivity].
  destruct (n_children star) as [|x rest]; [reflexivity|]. cbn [map]. rewrite rl_kind, rl_attrs. rewrite Hic, in_ctor_agree. reflexivity.
Qed.

Lemma check_lhs_rl st e : imm_check_lhs fs' cur st (rl e) = map rd (imm_check_lhs fs cur st e).
Proof.
  unfold imm_check_lhs. rewrite rl_kind. destruct (n_kind e); try reflexivity.
  - rewrite field_target_rl, rl_pos, rl_attrs. destruct (imm_field_target fs cur st e); reflexivity.
  - rewrite rl_children, rl_pos. destruct (n_children e) as [|x r]; [reflexivity|]. cbn [map]. rewrite rl_kind.
    destruct (n_kind x); try reflexivity. rewrite field_target_rl, rl_attrs. destruct (imm_field_target fs cur st x); reflexivity.
  - rewrite recv_target_rl, rl_pos. destruct (imm_recv_target fs cur st e); reflexivity.
Qed.

Lemma check_compound_rl st tok e : imm_check_compound fs' cur st tok (rl e) = map rd (imm_check_compound fs cur st tok e).
Proof.
  unfold imm_check_compound. rewrite rl_kind. destruct (n_kind e); try reflexivity.
  rewrite field_target_rl, rl_pos, rl_attrs. destruct (imm_field_target fs cur st e); reflexivity.
Qed.

Lemma imm_check_node_rl st n : imm_check_node fs' cur st (rl n) = map rd (imm_check_node fs cur st n).
Proof.
  unfold imm_check_node. rewrite rl_kind, rl_attrs, rl_children, rl_pos. destruct (n_kind n); try reflexivity.
  - rewrite firstn_map, !flat_map_map. destruct (String.eqb (a_tok (n_attrs n)) "=").
    + apply flat_map_rd. intros x. apply check_lhs_rl.
    + apply flat_map_rd. intros x. apply check_compound_rl.
  - destruct (n_children n) as [|x r]; [reflexivity|]. cbn [map]. rewrite rl_kind. destruct (n_kind x); try reflexivity.
    + rewrite field_target_rl, rl_attrs. destruct (imm_field_target fs cur st x); reflexivity.
    + rewrite recv_target_rl, rl_pos. destruct (imm_recv_target fs cur st x); reflexivity.
Qed.

Lemma recv_info_rl n : extract_recv_info (rl n) = extract_recv_info n.
Proof. unfold extract_recv_info. rewrite rl_attrs. reflexivity. Qed.

Lemma imm_step_rl st out n :
  imm_step fs' cur (st, map rd out) (rl n) = (fst (imm_step fs cur (st, out) n), map rd (snd (imm_step fs cur (st, out) n))).
Proof.
  unfold imm_step. rewrite rl_kind. destruct (n_kind n); cbn [fst snd]; try (rewrite imm_check_node_rl, <- map_app; reflexivity).
  rewrite rl_attrs, recv_info_rl. reflexivity.
Qed.

Lemma imm_decl_rl d : imm_decl fs' cur (rl d) = map rd (imm_decl fs cur d).
Proof.
  unfold imm_decl. rewrite preorder_rl.
  assert (G : forall l st out, fold_left (imm_step fs' cur) (map rl l) (st, map rd out) =
                               (fst (fold_left (imm_step fs cur) l (st, out)), map rd (snd (fold_left (imm_step fs cur) l (st, out))))).
  { induction l as [|n l IH]; intros st out; [reflexivity|]. cbn [map fold_left]. rewrite imm_step_rl.
    destruct (imm_step fs cur (st, out) n) as [st' out']. cbn [fst snd]. apply IH. }
  specialize (G (preorder d) {| is_fn := ""; is_recv := None |} []). cbn [map] in G. rewrite G. reflexivity.
Qed.

(* --- constructor --- *)
Lemma ctor_viol_rl fn t pos code reason : ctor_viol fs' cur fn t (phi pos) code reason = map rd (ctor_viol fs cur fn t pos code reason).
Proof.
  unfold ctor_viol. destruct t as [[p tn]|]; [|reflexivity]. unfold ctor_has_type, ctor_match. rewrite !Hcn.
  destruct (match ctor_names fs p tn with [] => false | _ => true end && negb (String.eqb cur p && str_mem fn (ctor_names fs p tn))); reflexivity.
Qed.

Lemma ctor_check_node_rl fn n : ctor_check_node fs' cur fn (rl n) = map rd (ctor_check_node fs cur fn n).
Proof.
  unfold ctor_check_node. rewrite rl_kind, rl_attrs, rl_children, rl_pos. destruct (n_kind n); try reflexivity.
  - destruct (String.eqb (a_tok (n_attrs n)) "var"); [|reflexivity]. rewrite flat_map_map. apply flat_map_rd. intros spec.
    rewrite rl_kind, rl_attrs, plain_children_rl. destruct (kind_eqb (n_kind spec) KValueSpec && Nat.eqb (a_m (n_attrs spec)) 0); [|reflexivity].
    rewrite firstn_map, flat_map_map. apply flat_map_rd. intros nm. rewrite rl_attrs, rl_pos.
    destruct (String.eqb (a_name (n_attrs nm)) "_"); [reflexivity|apply ctor_viol_rl].
  - apply ctor_viol_rl.
  - destruct (n_children n) as [|f r]; [reflexivity|]. cbn [map]. rewrite rl_kind, rl_attrs. destruct (n_kind f); try reflexivity.
    destruct (String.eqb (a_name (n_attrs f)) "new" && Nat.eqb (a_n (n_attrs n)) 1); [apply ctor_viol_rl|reflexivity].
Qed.

Lemma ctor_step_rl fn out n :
  ctor_step fs' cur (fn, map rd out) (rl n) = (fst (ctor_step fs cur (fn, out) n), map rd (snd (ctor_step fs cur (fn, out) n))).
Proof.
  unfold ctor_step. rewrite rl_kind. destruct (n_kind n); cbn [fst snd]; try (rewrite ctor_check_node_rl, <- map_app; reflexivity).
  rewrite rl_attrs. reflexivity.
Qed.

Lemma ctor_decl_rl d : ctor_decl fs' cur (rl d) = map rd (ctor_decl fs cur d).
Proof.
  unfold ctor_decl. rewrite preorder_rl.
  assert (G : forall l fn out, fold_left (ctor_step fs' cur) (map rl l) (fn, map rd out) =
                               (fst (fold_left (ctor_step fs cur) l (fn, out)), map rd (snd (fold_left (ctor_step fs cur) l (fn, out))))).
  { induction l as [|n l IH]; intros fn out; [reflexivity|]. cbn [map fold_left]. rewrite ctor_step_rl.
    destruct (ctor_step fs cur (fn, out) n) as [fn' out']. cbn [fst snd]. apply IH. }
  specialize (G (preorder d) "" []). cbn [map] in G. rewrite G. reflexivity.
Qed.

(* --- testonly / packageonly candidates --- *)
Lemma recv_type_expr_rl fd : recv_type_expr (rl fd) = option_map rl (recv_type_expr fd).
Proof.
  unfold recv_type_expr. rewrite rl_attrs, rl_children. destruct (a_flag (n_attrs fd)); [|reflexivity].
  rewrite filter_map_rl by (intros m; rewrite rl_kind; reflexivity).
  destruct (filter (fun c => kind_eqb (n_kind c) KFieldList) (n_children fd)) as [|fl r]; [reflexivity|]. cbn [map].
  rewrite rl_children. destruct (n_children fl) as [|fld r']; [reflexivity|]. cbn [map]. rewrite plain_children_rl, rl_attrs.
  rewrite nth_error_map. reflexivity.
Qed.

Lemma extract_receiver_type_rl e : extract_receiver_type (rl e) = extract_receiver_type e.
Proof.
  unfold extract_receiver_type. rewrite rl_kind, rl_attrs, rl_children. destruct (n_kind e); try reflexivity.
  destruct (n_children e) as [|x r]; [reflexivity|]. cbn [map]. rewrite rl_kind, rl_attrs. reflexivity.
Qed.

Lemma func_recv_type_rl fd : func_recv_type (rl fd) = func_recv_type fd.
Proof. unfold func_recv_type. rewrite recv_type_expr_rl. destruct (recv_type_expr fd); [apply extract_receiver_type_rl|reflexivity]. Qed.

Lemma tonl_keep_rl n : tonl_keep fs' cur (rl n) = tonl_keep fs cur n.
Proof. unfold tonl_keep, in_testonly_context. rewrite rl_kind, rl_attrs, func_recv_type_rl, Htm, Htf. reflexivity. Qed.

Lemma tonl_type_cand_rl t pos : tonl_type_cand fs' t (phi pos) = map rc (tonl_type_cand fs t pos).
Proof. unfold tonl_type_cand. destruct (type_info t) as [[p tn]|]; [|reflexivity]. rewrite Htt. destruct (tonl_type fs p tn); reflexivity. Qed.

Lemma method_recv_type_rl n : method_recv_type (rl n) = method_recv_type n.
Proof. unfold method_recv_type. rewrite rl_attrs. reflexivity. Qed.

Lemma tonl_cands_rl n : tonl_cands fs' (rl n) = map rc (tonl_cands fs n).
Proof.
  unfold tonl_cands. rewrite rl_kind, rl_attrs, rl_children, rl_pos. destruct (n_kind n); try reflexivity; try apply tonl_type_cand_rl.
  - destruct (a_flag (n_attrs n)); [apply tonl_type_cand_rl|reflexivity].
  - destruct (n_children n) as [|f r]; [reflexivity|]. cbn [map]. rewrite method_recv_type_rl, rl_kind, rl_attrs, rl_children. destruct (n_kind f); try reflexivity.
    + destruct (n_children f) as [|x r']; cbn [map].
      * destruct (type_info (method_recv_type f)) as [[p tn]|] eqn:Em; [|reflexivity]. rewrite Htm. destruct (tonl_method fs p (a_name (n_attrs f)) tn); reflexivity.
      * rewrite rl_kind, rl_attrs.
        destruct (match n_kind x, a_obj (n_attrs x) with
                  | KIdent, Some o => match o_kind o with OPkgName => Some (o_imported o) | _ => None end
                  | _, _ => None
                  end) as [p|].
        -- rewrite Htf. destruct (tonl_func fs p (a_name (n_attrs f))); reflexivity.
        -- destruct (type_info (method_recv_type f)) as [[p tn]|]; [|reflexivity]. rewrite Htm. destruct (tonl_method fs p (a_name (n_attrs f)) tn); reflexivity.
    + destruct (a_obj (n_attrs f)) as [o|]; [|reflexivity]. destruct (o_kind o); try reflexivity. destruct (o_pkg o) as [p|]; [|reflexivity].
      rewrite Htf. destruct (negb (o_is_method o) && tonl_func fs p (o_name o)); reflexivity.
Qed.

Lemma pkgo_obj_cand_rl o declared pos : pkgo_obj_cand fs' cur cur_name o declared (phi pos) = map rc (pkgo_obj_cand fs cur cur_name o declared pos).
Proof.
  assert (T : forall p tn, pkgo_type_cand fs' cur cur_name p tn (phi pos) = map rc (pkgo_type_cand fs cur cur_name p tn pos)).
  { intros p tn. unfold pkgo_type_cand. rewrite Hpa. destruct (pkgo_attach fs AKType p "" tn); [reflexivity|].
    destruct (negb (String.eqb p cur) && negb (pkgo_allowed cur cur_name (s :: l))); reflexivity. }
  unfold pkgo_obj_cand. destruct (o_kind o); try reflexivity.
  - destruct (if o_is_alias o then named_direct (o_type o) else None) as [[tp tn]|]; apply T.
  - destruct (o_is_method o).
    + unfold pkgo_method_cand. rewrite Hpa. destruct (pkgo_attach fs AKMethod declared (type_name (o_recv o)) (o_name o)); [reflexivity|].
      destruct (negb (String.eqb declared cur) && negb (pkgo_allowed cur cur_name (s :: l))); reflexivity.
    + unfold pkgo_func_cand. rewrite Hpa. destruct (pkgo_attach fs AKFunc declared "" (o_name o)); [reflexivity|].
      destruct (negb (String.eqb declared cur) && negb (pkgo_allowed cur cur_name (s :: l))); reflexivity.
Qed.

Lemma pkgo_cands_rl n : pkgo_cands fs' cur cur_name (rl n) = map rc (pkgo_cands fs cur cur_name n).
Proof.
  unfold pkgo_cands. rewrite rl_kind, rl_attrs, rl_pos. destruct (n_kind n); try reflexivity.
  - destruct (a_obj (n_attrs n)) as [o|]; [|reflexivity]. destruct (o_pkg o) as [p|]; [|reflexivity].
    destruct (String.eqb p cur); [reflexivity|apply pkgo_obj_cand_rl].
  - destruct (a_flag (n_attrs n)); [reflexivity|]. destruct (a_obj (n_attrs n)) as [o|]; [|reflexivity]. destruct (o_pkg o) as [p|]; [|reflexivity].
    apply pkgo_obj_cand_rl.
Qed.

Lemma preorder_pruned_rl keep' keep n : (forall m, keep' (rl m) = keep m) -> preorder_pruned keep' (rl n) = map rl (preorder_pruned keep n).
Proof.
  intros Hk. induction n as [k p e a cs IH] using node_ind'.
  cbn [rl preorder_pruned]. change (Node k (phi p) (phi e) a (map rl cs)) with (rl (Node k p e a cs)). rewrite Hk.
  cbn [map]. f_equal. destruct (keep (Node k p e a cs)); [|reflexivity].
  induction cs as [|c r IHr]; [reflexivity|]. inversion IH as [|? ? Hc Hr]; subst. cbn [map]. rewrite map_app, Hc, (IHr Hr). reflexivity.
Qed.

(* --- the once-per-file filter under a suppression function that answers alike --- *)
Variables sup sup' : string -> Z -> bool.
Hypothesis Hsup : forall c q, sup' c (phi q) = sup c q.

Lemma dedup_rl cands : dedup_report sup' (map rc cands) = map rd (dedup_report sup cands).
Proof.
  rewrite !dedup_report_rec. generalize (@nil (string * string)) as seen. induction cands as [|[d k] r IH]; intros seen; [reflexivity|].
  cbn [map dedup_rec rc fst snd rd d_code d_pos]. rewrite Hsup. destruct (sup (d_code d) (d_pos d)); [apply IH|].
  destruct k as [k'|]; [destruct (existsb (key_eqb k') seen); [apply IH|]|]; cbn [map]; f_equal; apply IH.
Qed.

Lemma report_filter_rl ds : report_filter sup' (map rd ds) = map rd (report_filter sup ds).
Proof.
  unfold report_filter. induction ds as [|d r IH]; [reflexivity|]. cbn [map filter rd d_code d_pos]. rewrite Hsup.
  destruct (sup (d_code d) (d_pos d)); cbn [negb map]; [exact IH|f_equal; exact IH].
Qed.

Definition rl_file (f : file) : file :=
  {| f_name := f_name f; f_package := phi (f_package f); f_end := phi (f_end f); f_decls := map rl (f_decls f);
     f_comments := f_comments f; f_imports := f_imports f; f_lines := f_lines f |}.

Theorem imm_candidates_rl_gen files : imm_candidates fs' cur (map rl_file files) = map rd (imm_candidates fs cur files).
Proof.
  unfold imm_candidates. rewrite Hie. destruct (imm_index_empty fs); [reflexivity|]. rewrite flat_map_map. apply flat_map_rd. intros f.
  cbn [rl_file f_decls]. rewrite flat_map_map. apply flat_map_rd. intros d. apply imm_decl_rl.
Qed.

Theorem ctor_candidates_rl_gen files : ctor_candidates fs' cur (map rl_file files) = map rd (ctor_candidates fs cur files).
Proof.
  unfold ctor_candidates. rewrite Hce. destruct (ctor_index_empty fs); [reflexivity|]. rewrite flat_map_map. apply flat_map_rd. intros f.
  cbn [rl_file f_decls]. rewrite flat_map_map. apply flat_map_rd. intros d. apply ctor_decl_rl.
Qed.

Theorem tonl_diags_rl_gen files : tonl_diags fs' cur sup' (map rl_file files) = map rd (tonl_diags fs cur sup files).
Proof.
  unfold tonl_diags. rewrite !Hth. destruct (negb (tonl_has AKType fs) && negb (tonl_has AKFunc fs) && negb (tonl_has AKMethod fs)); [reflexivity|].
  rewrite flat_map_map. apply flat_map_rd. intros f. unfold tonl_file. cbn [rl_file f_name f_decls].
  destruct (has_suffix "_test.go" (f_name f)); [reflexivity|].
  rewrite <- dedup_rl. f_equal.
  rewrite flat_map_map.
  transitivity (flat_map (tonl_cands fs') (map rl (flat_map (preorder_pruned (tonl_keep fs cur)) (f_decls f)))).
  - f_equal. induction (f_decls f) as [|d r IH]; [reflexivity|]. cbn [flat_map]. rewrite map_app, <- IH. f_equal.
    apply preorder_pruned_rl. apply tonl_keep_rl.
  - rewrite flat_map_map. apply flat_map_rc. intros n. apply tonl_cands_rl.
Qed.

Theorem pkgo_diags_rl_gen files : pkgo_diags fs' cur cur_name sup' (map rl_file files) = map rd (pkgo_diags fs cur cur_name sup files).
Proof.
  unfold pkgo_diags. rewrite Hpe. destruct (pkgo_index_empty fs); [reflexivity|].
  rewrite flat_map_map. apply flat_map_rd. intros f. unfold pkgo_file. cbn [rl_file f_decls].
  rewrite <- dedup_rl. f_equal. rewrite preorder_list_rl, flat_map_map. apply flat_map_rc. intros n. apply pkgo_cands_rl.
Qed.

End Checkers.

(* the same facts on both sides *)
Theorem imm_candidates_rl fs cur files : imm_candidates fs cur (map rl_file files) = map rd (imm_candidates fs cur files).
Proof. apply imm_candidates_rl_gen; intros; reflexivity. Qed.
Theorem ctor_candidates_rl fs cur files : ctor_candidates fs cur (map rl_file files) = map rd (ctor_candidates fs cur files).
Proof. apply ctor_candidates_rl_gen; intros; reflexivity. Qed.
Theorem tonl_diags_rl fs cur (sup sup' : string -> Z -> bool) :
  (forall c q, sup' c (phi q) = sup c q) -> forall files, tonl_diags fs cur sup' (map rl_file files) = map rd (tonl_diags fs cur sup files).
Proof. intros H files. apply tonl_diags_rl_gen; intros; try reflexivity. apply H. Qed.
Theorem pkgo_diags_rl fs cur cur_name (sup sup' : string -> Z -> bool) :
  (forall c q, sup' c (phi q) = sup c q) -> forall files, pkgo_diags fs cur cur_name sup' (map rl_file files) = map rd (pkgo_diags fs cur cur_name sup files).
Proof. intros H files. apply pkgo_diags_rl_gen; intros; try reflexivity. apply H. Qed.
End Relabel.
