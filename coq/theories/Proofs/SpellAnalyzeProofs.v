(* C13, end to end: the whole per-package analysis (annotation reader, @ignore reader, @implements checker, the four AST
   checkers, suppression) gives the same result on a package and on any identity-preserving respelling of its recorded types. *)
From Coq Require Import List String ZArith Bool.
From GG Require Import Base.Strs Model.Codes Model.IgnoreSet Model.Config Model.GoTypes Model.GoAst Model.RegexSyntax Model.Regex Model.Annot
                       Model.Annots Model.Analyze Model.Impl Extracted Exec Proofs.WalkProofs Proofs.LayoutProofs Proofs.SpellProofs.
Import ListNotations.
Local Open Scope string_scope.
Local Open Scope Z_scope.

Section Respell.
Variable psi : option ty -> option ty.
Hypothesis Hpsi : forall t, same_type (psi t) t.

Notation rt := (rt psi).
Notation rt_file := (rt_file psi).

Ltac rtw := rewrite ?rt_kind, ?rt_pos, ?rt_children, ?rt_name, ?rt_tok, ?rt_n, ?rt_m, ?rt_flag, ?rt_obj, ?rt_str2, ?rt_str3.

Lemma rt_end n : n_end (rt n) = n_end n. Proof. destruct n; reflexivity. Qed.

Definition rt_pkg (p : package) : package :=
  {| p_path := p_path p; p_name := p_name p; p_files := map rt_file (p_files p); p_imports := p_imports p; p_types := p_types p |}.

(* ---- the annotation reader never looks at a recorded type ---- *)
Lemma doc_lines_rt n : doc_lines (rt n) = doc_lines n.
Proof.
  unfold doc_lines. rtw. destruct (n_children n) as [|c r]; [reflexivity|]. cbn [map].
  destruct c as [k p e a cs]. cbn [SpellProofs.rt]. destruct k; try reflexivity.
  cbn [ra a_tok]. destruct (String.eqb (a_tok a) "doc"); [|reflexivity]. f_equal.
  rewrite map_map. apply map_ext. intros c. apply rt_name.
Qed.

Section Reader.
Variables re_impl re_ctor re_imm re_tonl re_mut re_pkgo : re.
Variable keywords : list string.

Lemma field_mutables_rt tn spec :
  field_mutables re_mut keywords tn (rt spec) = field_mutables re_mut keywords tn spec.
Proof.
  unfold field_mutables. rtw. rewrite (filter_map_rt psi) by (intros m; rewrite rt_kind; reflexivity).
  destruct (filter (fun c => kind_eqb (n_kind c) KStructType) (n_children spec)) as [|st r]; [reflexivity|]. cbn [map]. rtw.
  destruct (n_children st) as [|fl r']; [reflexivity|]. cbn [map]. rtw.
  rewrite flat_map_map. apply flat_map_eq. intros fld. rtw. destruct (Nat.eqb (a_n (n_attrs fld)) 0); [reflexivity|].
  rewrite doc_lines_rt. destruct (doc_lines fld) as [docs|]; [|reflexivity].
  rewrite plain_children_rt, firstn_map, flat_map_map. apply flat_map_eq. intros nm. rtw. reflexivity.
Qed.

Lemma type_line_rt cur imps spec text :
  type_line re_impl re_ctor re_imm re_tonl re_mut re_pkgo keywords cur imps (rt spec) text =
  type_line re_impl re_ctor re_imm re_tonl re_mut re_pkgo keywords cur imps spec text.
Proof. unfold type_line. rtw. rewrite field_mutables_rt. reflexivity. Qed.

Lemma func_line_rt cur fd text :
  func_line re_tonl re_pkgo keywords cur (rt fd) text = func_line re_tonl re_pkgo keywords cur fd text.
Proof. unfold func_line. rtw. rewrite (func_recv_type_rt psi). reflexivity. Qed.

Lemma type_decl_annots_rt cur imps d :
  type_decl_annots re_impl re_ctor re_imm re_tonl re_mut re_pkgo keywords cur imps (rt d) =
  type_decl_annots re_impl re_ctor re_imm re_tonl re_mut re_pkgo keywords cur imps d.
Proof.
  unfold type_decl_annots. rtw. destruct (kind_eqb (n_kind d) KGenDecl && String.eqb (a_tok (n_attrs d)) "type"); [|reflexivity].
  f_equal. rewrite map_map. apply map_ext. intros spec. rtw. destruct (kind_eqb (n_kind spec) KTypeSpec); [|reflexivity].
  rewrite !doc_lines_rt.
  destruct (match (if a_flag (n_attrs spec) then doc_lines spec else None) with Some l => Some l | None => doc_lines d end) as [lines|]; [|reflexivity].
  f_equal. apply map_ext. intros text. apply type_line_rt.
Qed.

Lemma func_decl_annots_rt cur d :
  func_decl_annots re_tonl re_pkgo keywords cur (rt d) = func_decl_annots re_tonl re_pkgo keywords cur d.
Proof.
  unfold func_decl_annots. rtw. destruct (kind_eqb (n_kind d) KFuncDecl); [|reflexivity].
  rewrite doc_lines_rt. destruct (doc_lines d) as [lines|]; [|reflexivity]. f_equal. apply map_ext. intros text. apply func_line_rt.
Qed.

Lemma file_annots_rt cur f :
  file_annots re_impl re_ctor re_imm re_tonl re_mut re_pkgo keywords cur (rt_file f) =
  file_annots re_impl re_ctor re_imm re_tonl re_mut re_pkgo keywords cur f.
Proof.
  unfold file_annots. cbn [SpellProofs.rt_file f_decls f_imports]. rewrite !map_map. f_equal; f_equal; apply map_ext; intros d.
  - apply type_decl_annots_rt.
  - apply func_decl_annots_rt.
Qed.

Lemma kept_files_rt cfg p : kept_files cfg (rt_pkg p) = map rt_file (kept_files cfg p).
Proof.
  unfold kept_files. cbn [rt_pkg p_files]. induction (p_files p) as [|f r IH]; [reflexivity|]. cbn [map filter SpellProofs.rt_file f_name].
  destruct (negb (should_skip cfg (f_name f))); cbn [map]; [f_equal|]; exact IH.
Qed.

Lemma read_all_rt cfg p :
  read_all re_impl re_ctor re_imm re_tonl re_mut re_pkgo keywords cfg (rt_pkg p) =
  read_all re_impl re_ctor re_imm re_tonl re_mut re_pkgo keywords cfg p.
Proof.
  unfold read_all. rewrite kept_files_rt. cbn [rt_pkg p_path]. f_equal. rewrite map_map. apply map_ext. intros f. apply file_annots_rt.
Qed.
End Reader.

(* ---- the @ignore reader looks at positions and comments only ---- *)
Lemma line_of_rt f q : line_of (rt_file f) q = line_of f q.
Proof. reflexivity. Qed.
Lemma line_start_rt f l : line_start (rt_file f) l = line_start f l.
Proof. reflexivity. Qed.

Lemma has_code_on_line_rt f cpos cline n : has_code_on_line (rt_file f) cpos cline (rt n) = has_code_on_line f cpos cline n.
Proof.
  induction n as [k p e a cs IH] using node_ind'. cbn [SpellProofs.rt has_code_on_line].
  destruct (p >=? cpos); [reflexivity|]. rewrite !line_of_rt.
  destruct ((line_of f p =? cline) || (line_of f e =? cline)); [reflexivity|].
  induction cs as [|c r IHr]; [reflexivity|]. inversion IH as [|? ? Hc Hr]; subst. cbn [map]. rewrite Hc. f_equal. apply IHr. exact Hr.
Qed.

Lemma next_visit_rt cpos n best : next_visit cpos (rt n) best = next_visit cpos n best.
Proof.
  revert best. induction n as [k p e a cs IH] using node_ind'. intros best. cbn [SpellProofs.rt next_visit].
  assert (G : forall b,
             (fix go (l : list node) (b : option (Z * Z)) : option (Z * Z) := match l with [] => b | c :: r => go r (next_visit cpos c b) end) (map rt cs) b =
             (fix go (l : list node) (b : option (Z * Z)) : option (Z * Z) := match l with [] => b | c :: r => go r (next_visit cpos c b) end) cs b).
  { induction cs as [|c r IHr]; intros b; [reflexivity|]. inversion IH as [|? ? Hc Hr]; subst. cbn [map]. rewrite Hc. apply IHr. exact Hr. }
  destruct (p <=? cpos); [apply G|]. destruct best as [[bp be]|]; [|reflexivity]. destruct (p <? bp); [reflexivity|apply G].
Qed.

Lemma first_index_rt (q : node -> bool) l i : (forall n, q (rt n) = q n) -> first_index q (map rt l) i = first_index q l i.
Proof. intros H. revert i. induction l as [|x r IH]; intros i; [reflexivity|]. cbn [map first_index]. rewrite H. destruct (q x); [reflexivity|apply IH]. Qed.

Lemma nth_error_rt l k : nth_error (map rt l) k = option_map rt (nth_error l k).
Proof. revert l. induction k as [|k IH]; intros [|x l]; simpl; auto. Qed.

Lemma find_inline_rt f c : find_inline (rt_file f) c = find_inline f c.
Proof.
  unfold find_inline. cbn [SpellProofs.rt_file f_decls]. rewrite !line_of_rt, !line_start_rt.
  rewrite (first_index_rt (fun d => n_end d >? c_pos c)) by (intros n; rewrite rt_end; reflexivity).
  set (idx := first_index (fun d => n_end d >? c_pos c) (f_decls f) 0).
  assert (Ht : match idx with
               | O => false
               | S j => match nth_error (map rt (f_decls f)) j with Some d => line_of (rt_file f) (n_end d) =? line_of f (c_pos c) | None => false end
               end =
               match idx with
               | O => false
               | S j => match nth_error (f_decls f) j with Some d => line_of f (n_end d) =? line_of f (c_pos c) | None => false end
               end).
  { destruct idx as [|j]; [reflexivity|]. rewrite nth_error_rt. destruct (nth_error (f_decls f) j) as [d|]; [|reflexivity]. cbn [option_map]. rewrite rt_end. reflexivity. }
  cbn [SpellProofs.rt_file f_decls] in Ht. rewrite Ht. clear Ht.
  destruct (match idx with O => false | S j => match nth_error (f_decls f) j with Some d => line_of f (n_end d) =? line_of f (c_pos c) | None => false end end); [reflexivity|].
  rewrite nth_error_rt. destruct (nth_error (f_decls f) idx) as [d|]; [|reflexivity]. cbn [option_map]. rewrite rt_pos.
  destruct (c_pos c <? n_pos d); [reflexivity|]. rewrite has_code_on_line_rt. reflexivity.
Qed.

Lemma find_next_end_rt f cpos : find_next_end (rt_file f) cpos = find_next_end f cpos.
Proof.
  unfold find_next_end. cbn [SpellProofs.rt_file f_decls].
  rewrite (first_index_rt (fun d => n_end d >? cpos)) by (intros n; rewrite rt_end; reflexivity).
  rewrite nth_error_rt. destruct (nth_error (f_decls f) _) as [d|]; [|reflexivity]. cbn [option_map]. rewrite rt_pos, rt_end, next_visit_rt. reflexivity.
Qed.

Lemma comment_scope_rt f c : comment_scope (rt_file f) c = comment_scope f c.
Proof. unfold comment_scope. rewrite find_inline_rt, find_next_end_rt. reflexivity. Qed.

Lemma ignore_ops_comments_rt re_ign kw f cs : ignore_ops_comments re_ign kw (rt_file f) cs = ignore_ops_comments re_ign kw f cs.
Proof.
  induction cs as [|c r IH]; [reflexivity|]. cbn [ignore_ops_comments]. rewrite IH, comment_scope_rt. reflexivity.
Qed.

Lemma ignore_ops_files_rt re_ign kw fls : ignore_ops_files re_ign kw (map rt_file fls) = ignore_ops_files re_ign kw fls.
Proof.
  induction fls as [|f r IH]; [reflexivity|]. cbn [map ignore_ops_files]. rewrite IH, ignore_ops_comments_rt. reflexivity.
Qed.

Lemma ignore_ops_rt re_ign kw cfg p : ignore_ops re_ign kw cfg (rt_pkg p) = ignore_ops re_ign kw cfg p.
Proof.
  unfold ignore_ops. change (filter (fun f => negb (should_skip cfg (f_name f))) (p_files (rt_pkg p))) with (kept_files cfg (rt_pkg p)).
  rewrite kept_files_rt. rewrite ignore_ops_files_rt. reflexivity.
Qed.

(* ---- the whole analysis ---- *)
Theorem analyze_rt cfg p all : x_analyze cfg (rt_pkg p) all = x_analyze cfg p all.
Proof.
  unfold x_analyze, x_read_all, x_ignore_ops. rewrite read_all_rt, ignore_ops_rt.
  destruct (ignore_ops re_ignore kw_ignore cfg p) as [ops|]; [|reflexivity].
  rewrite kept_files_rt. cbn [rt_pkg p_types p_path p_imports p_name].
  assert (Hf : x_facts (rt_pkg p) (read_all re_implements re_constructor re_immutable re_testonly re_mutable re_packageonly kw_annotations cfg p) all =
               x_facts p (read_all re_implements re_constructor re_immutable re_testonly re_mutable re_packageonly kw_annotations cfg p) all) by reflexivity.
  rewrite Hf.
  rewrite (imm_candidates_rt psi Hpsi), (ctor_candidates_rt psi Hpsi), (tonl_diags_rt psi Hpsi), (pkgo_diags_rt psi). reflexivity.
Qed.

End Respell.
