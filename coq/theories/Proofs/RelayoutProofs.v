(* C12, end to end: re-laying out a package by any strictly monotone map of positions that sends line starts to line
   starts (gofmt re-indentation and alignment, CRLF <-> LF, another FileSet base, tabs <-> blanks - every change of
   layout that keeps the lines) relabels the result of the whole per-package analysis and changes nothing else. *)
From Coq Require Import List String ZArith Bool Lia.
From GG Require Import Base.Strs Model.Codes Model.IgnoreSet Model.Config Model.GoTypes Model.GoAst Model.RegexSyntax Model.Regex Model.Annot
                       Model.Annots Model.Analyze Model.Impl Extracted Exec Proofs.WalkProofs Proofs.CheckerProofs Proofs.IgnoreSetProofs
                       Proofs.LayoutProofs Proofs.OpsProofs.
Import ListNotations.
Local Open Scope string_scope.
Local Open Scope Z_scope.

Section Relayout.
Variable phi : Z -> Z.
Hypothesis Hmono : forall a b, a < b -> phi a < phi b.
Hypothesis Hzero : phi 0 = 0.

Lemma phi_lt a b : (phi a <? phi b) = (a <? b).
Proof.
  destruct (Z.ltb_spec a b) as [H|H]; [apply Z.ltb_lt; apply Hmono; exact H|].
  apply Z.ltb_ge. destruct (Z.eq_dec a b) as [->|Hne]; [lia|]. assert (b < a) by lia. pose proof (Hmono b a H0). lia.
Qed.
Lemma phi_le a b : (phi a <=? phi b) = (a <=? b).
Proof. rewrite !Z.leb_antisym, phi_lt. reflexivity. Qed.
Lemma phi_gt a b : (phi a >? phi b) = (a >? b).
Proof. rewrite !Z.gtb_ltb. apply phi_lt. Qed.
Lemma phi_ge a b : (phi a >=? phi b) = (a >=? b).
Proof. rewrite !Z.geb_leb. apply phi_le. Qed.
Lemma phi_eqb a b : (phi a =? phi b) = (a =? b).
Proof.
  destruct (Z.eqb_spec a b) as [->|H]; [apply Z.eqb_refl|]. apply Z.eqb_neq.
  destruct (Z.lt_total a b) as [L|[L|L]]; [pose proof (Hmono a b L); lia|contradiction|pose proof (Hmono b a L); lia].
Qed.
Lemma phi_eq0 a : (phi a =? 0) = (a =? 0).
Proof. rewrite <- Hzero at 1. apply phi_eqb. Qed.
Lemma phi_pos a : 1 <= a -> 1 <= phi a.
Proof. intros H. assert (0 < a) by lia. pose proof (Hmono 0 a H0). lia. Qed.

Notation rl := (rl phi).

Definition rl_comment (c : comment) : comment := {| c_text := c_text c; c_pos := phi (c_pos c); c_end := phi (c_end c) |}.

Definition rlf (f : file) : file :=
  {| f_name := f_name f; f_package := phi (f_package f); f_end := phi (f_end f); f_decls := map rl (f_decls f);
     f_comments := map (map rl_comment) (f_comments f); f_imports := f_imports f; f_lines := map phi (f_lines f) |}.

Definition rl_op (o : op) : op := match o with OpAdd cs st en => OpAdd cs (phi st) (phi en) | OpGlobal cs => OpGlobal cs end.

Lemma rl_end n : n_end (rl n) = phi (n_end n). Proof. destruct n; reflexivity. Qed.

(* ---- lines ---- *)
Lemma line_of_rlf f q : line_of (rlf f) (phi q) = line_of f q.
Proof.
  unfold line_of. cbn [rlf f_lines]. f_equal.
  induction (f_lines f) as [|s r IH]; [reflexivity|]. cbn [map filter]. rewrite phi_le. destruct (s <=? q); cbn [List.length]; [f_equal|]; exact IH.
Qed.

Lemma line_start_rlf f l : line_start (rlf f) l = option_map phi (line_start f l).
Proof.
  unfold line_start. cbn [rlf f_lines]. rewrite map_length.
  destruct ((1 <=? l) && (l <=? Z.of_nat (List.length (f_lines f)))); [|reflexivity].
  rewrite nth_error_map. reflexivity.
Qed.

(* ---- the two tree searches of the @ignore reader ---- *)
Lemma has_code_on_line_rlf f cpos n :
  has_code_on_line (rlf f) (phi cpos) (line_of f cpos) (rl n) = has_code_on_line f cpos (line_of f cpos) n.
Proof.
  induction n as [k p e a cs IH] using node_ind'. cbn [LayoutProofs.rl has_code_on_line].
  rewrite phi_ge. destruct (p >=? cpos); [reflexivity|]. rewrite !line_of_rlf.
  destruct ((line_of f p =? line_of f cpos) || (line_of f e =? line_of f cpos)); [reflexivity|].
  induction cs as [|c r IHr]; [reflexivity|]. inversion IH as [|? ? Hc Hr]; subst. cbn [map]. rewrite Hc. f_equal. apply IHr. exact Hr.
Qed.

Definition rl_best (b : option (Z * Z)) : option (Z * Z) := option_map (fun pe => (phi (fst pe), phi (snd pe))) b.

Lemma next_visit_rlf cpos n best : next_visit (phi cpos) (rl n) (rl_best best) = rl_best (next_visit cpos n best).
Proof.
  revert best. induction n as [k p e a cs IH] using node_ind'. intros best. cbn [LayoutProofs.rl next_visit].
  assert (G : forall b,
             (fix go (l : list node) (b : option (Z * Z)) : option (Z * Z) := match l with [] => b | c :: r => go r (next_visit (phi cpos) c b) end) (map rl cs) (rl_best b) =
             rl_best ((fix go (l : list node) (b : option (Z * Z)) : option (Z * Z) := match l with [] => b | c :: r => go r (next_visit cpos c b) end) cs b)).
  { induction cs as [|c r IHr]; intros b; [reflexivity|]. inversion IH as [|? ? Hc Hr]; subst. cbn [map]. rewrite Hc. apply IHr. exact Hr. }
  rewrite phi_le. destruct (p <=? cpos); [apply G|]. destruct best as [[bp be]|]; cbn [rl_best option_map fst snd]; [|reflexivity].
  rewrite phi_lt. destruct (p <? bp); [reflexivity|]. apply (G (Some (bp, be))).
Qed.

Lemma first_index_rl (q q' : node -> bool) l i : (forall n, q' (rl n) = q n) -> first_index q' (map rl l) i = first_index q l i.
Proof. intros H. revert i. induction l as [|x r IH]; intros i; [reflexivity|]. cbn [map first_index]. rewrite H. destruct (q x); [reflexivity|apply IH]. Qed.

Definition rl_scope (s : scope_res) : scope_res :=
  match s with Inline a b => Inline (phi a) (phi b) | NotInline => NotInline | LinePanic => LinePanic end.

Lemma find_inline_rlf f c : find_inline (rlf f) (rl_comment c) = rl_scope (find_inline f c).
Proof.
  unfold find_inline. cbn [rlf f_decls rl_comment c_pos c_end]. rewrite !line_of_rlf, !line_start_rlf.
  rewrite (first_index_rl (fun d => n_end d >? c_pos c) (fun d => n_end d >? phi (c_pos c))) by (intros n; rewrite rl_end; apply phi_gt).
  set (idx := first_index (fun d => n_end d >? c_pos c) (f_decls f) 0).
  assert (Ht : match idx with
               | O => false
               | S j => match nth_error (map rl (f_decls f)) j with Some d => line_of (rlf f) (n_end d) =? line_of f (c_pos c) | None => false end
               end =
               match idx with
               | O => false
               | S j => match nth_error (f_decls f) j with Some d => line_of f (n_end d) =? line_of f (c_pos c) | None => false end
               end).
  { destruct idx as [|j]; [reflexivity|]. rewrite nth_error_map. destruct (nth_error (f_decls f) j) as [d|]; [|reflexivity]. cbn [option_map].
    rewrite rl_end, line_of_rlf. reflexivity. }
  cbn [rlf f_decls] in Ht. rewrite Ht. clear Ht.
  destruct (match idx with O => false | S j => match nth_error (f_decls f) j with Some d => line_of f (n_end d) =? line_of f (c_pos c) | None => false end end).
  - destruct (line_start f (line_of f (c_pos c))); reflexivity.
  - rewrite nth_error_map. destruct (nth_error (f_decls f) idx) as [d|]; [|reflexivity]. cbn [option_map]. rewrite rl_pos, phi_lt.
    destruct (c_pos c <? n_pos d); [reflexivity|]. rewrite has_code_on_line_rlf.
    destruct (has_code_on_line f (c_pos c) (line_of f (c_pos c)) d); [|reflexivity].
    destruct (line_start f (line_of f (c_pos c))); reflexivity.
Qed.

Lemma find_next_end_rlf f cpos : find_next_end (rlf f) (phi cpos) = phi (find_next_end f cpos).
Proof.
  unfold find_next_end. cbn [rlf f_decls].
  rewrite (first_index_rl (fun d => n_end d >? cpos) (fun d => n_end d >? phi cpos)) by (intros n; rewrite rl_end; apply phi_gt).
  rewrite nth_error_map. destruct (nth_error (f_decls f) _) as [d|]; cbn [option_map]; [|symmetry; exact Hzero].
  rewrite rl_pos, rl_end, phi_lt. destruct (cpos <? n_pos d); [reflexivity|].
  pose proof (next_visit_rlf cpos d None) as Hn. cbn [rl_best option_map] in Hn. rewrite Hn. clear Hn.
  destruct (next_visit cpos d None) as [[a b]|]; cbn [rl_best option_map fst snd]; [reflexivity|symmetry; exact Hzero].
Qed.

Definition rl_range (r : option (Z * Z)) : option (Z * Z) := option_map (fun se => (phi (fst se), phi (snd se))) r.

Lemma comment_scope_rlf f c : comment_scope (rlf f) (rl_comment c) = rl_range (comment_scope f c).
Proof.
  unfold comment_scope. rewrite find_inline_rlf. cbn [rl_comment c_pos c_end rlf f_package f_end]. rewrite phi_lt.
  destruct (c_pos c <? f_package f); [reflexivity|].
  destruct (find_inline f c) as [s e| |]; cbn [rl_scope]; try reflexivity.
  change (f_end (rlf f)) with (phi (f_end f)).
  rewrite find_next_end_rlf, phi_eq0. cbn [rl_range option_map fst snd]. destruct (find_next_end f (c_pos c) =? 0); reflexivity.
Qed.

Lemma ignore_ops_comments_rlf re_ign kw f cs :
  ignore_ops_comments re_ign kw (rlf f) (map rl_comment cs) = option_map (map rl_op) (ignore_ops_comments re_ign kw f cs).
Proof.
  induction cs as [|c r IH]; [reflexivity|]. cbn [map ignore_ops_comments]. rewrite IH.
  destruct (ignore_ops_comments re_ign kw f r) as [rest|]; cbn [option_map]; [|reflexivity].
  cbn [rl_comment c_text]. destruct (is_ignore_comment kw (c_text c)); [|reflexivity].
  change {| c_text := c_text c; c_pos := phi (c_pos c); c_end := phi (c_end c) |} with (rl_comment c).
  rewrite comment_scope_rlf. destruct (comment_scope f c) as [[s e]|]; cbn [rl_range option_map fst snd]; [|reflexivity].
  destruct (parse_ignore re_ign (c_text c)); reflexivity.
Qed.

Lemma concat_map_map {A B} (g : A -> B) (l : list (list A)) : List.concat (map (map g) l) = map g (List.concat l).
Proof. induction l as [|x r IH]; [reflexivity|]. cbn [map List.concat]. rewrite map_app, IH. reflexivity. Qed.

Lemma ignore_ops_files_rlf re_ign kw fls :
  ignore_ops_files re_ign kw (map rlf fls) = option_map (map rl_op) (ignore_ops_files re_ign kw fls).
Proof.
  induction fls as [|f r IH]; [reflexivity|]. cbn [map ignore_ops_files]. rewrite IH.
  cbn [rlf f_comments]. change (f_comments (rlf f)) with (map (map rl_comment) (f_comments f)).
  rewrite concat_map_map, ignore_ops_comments_rlf.
  destruct (ignore_ops_comments re_ign kw f (List.concat (f_comments f))) as [a|]; cbn [option_map]; [|reflexivity].
  destruct (ignore_ops_files re_ign kw r) as [b|]; cbn [option_map]; [|reflexivity]. rewrite map_app. reflexivity.
Qed.

Definition rlp (p : package) : package :=
  {| p_path := p_path p; p_name := p_name p; p_files := map rlf (p_files p); p_imports := p_imports p; p_types := p_types p |}.

Lemma kept_files_rlp cfg p : kept_files cfg (rlp p) = map rlf (kept_files cfg p).
Proof.
  unfold kept_files. cbn [rlp p_files]. induction (p_files p) as [|f r IH]; [reflexivity|]. cbn [map filter rlf f_name].
  destruct (negb (should_skip cfg (f_name f))); cbn [map]; [f_equal|]; exact IH.
Qed.

Lemma ignore_ops_rlp re_ign kw cfg p : ignore_ops re_ign kw cfg (rlp p) = option_map (map rl_op) (ignore_ops re_ign kw cfg p).
Proof.
  unfold ignore_ops. change (filter (fun f => negb (should_skip cfg (f_name f))) (p_files (rlp p))) with (kept_files cfg (rlp p)).
  rewrite kept_files_rlp, ignore_ops_files_rlf.
  change (filter (fun f => negb (should_skip cfg (f_name f))) (p_files p)) with (kept_files cfg p).
  destruct (ignore_ops_files re_ign kw (kept_files cfg p)) as [ops|]; cbn [option_map]; [|reflexivity].
  destruct (exclude_checks cfg); reflexivity.
Qed.

(* ---- suppression: a relabelled history answers at the relabelled position as the original did ---- *)
Lemma ops_positive_rl ops : ops_positive ops -> ops_positive (map rl_op ops).
Proof.
  intros H cs st en Hin. apply in_map_iff in Hin. destruct Hin as [[cs' st' en'|cs'] [E Hin]]; [|discriminate].
  cbn [rl_op] in E. injection E as <- <- <-. apply phi_pos. exact (H cs' st' en' Hin).
Qed.

Lemma suppressed_rl ops c q : ops_positive ops -> x_suppressed (map rl_op ops) c (phi q) = x_suppressed ops c q.
Proof.
  intros H. unfold x_suppressed, x_is_contains, x_is_run.
  rewrite (contains_run x_all codes_table (map rl_op ops) c (phi q)) by (apply ops_positive_rl; exact H).
  rewrite (contains_run x_all codes_table ops c q) by exact H.
  unfold spec. induction ops as [|o r IH]; [reflexivity|]. cbn [map existsb].
  rewrite IH by (intros cs st en Hin; apply (H cs st en); right; exact Hin). apply (f_equal (fun b => orb b _)).
  destruct o as [cs st en|cs]; unfold rl_op, covers; [|reflexivity]. rewrite !phi_le. reflexivity.
Qed.


(* ---- the annotation reader: the same annotations at the relabelled positions ---- *)
Definition rl_impl (x : impl_ann) : impl_ann :=
  {| ia_type := ia_type x; ia_pos := phi (ia_pos x); ia_iface := ia_iface x; ia_pkgname := ia_pkgname x; ia_ptr := ia_ptr x;
     ia_fullpath := ia_fullpath x; ia_notfound := ia_notfound x |}.
Definition rl_ctor (x : ctor_ann) : ctor_ann := {| ca_type := ca_type x; ca_pos := phi (ca_pos x); ca_names := ca_names x |}.
Definition rl_imm (x : imm_ann) : imm_ann := {| ima_type := ima_type x; ima_pos := phi (ima_pos x) |}.
Definition rl_tonl (x : tonl_ann) : tonl_ann := {| ta_kind := ta_kind x; ta_name := ta_name x; ta_pos := phi (ta_pos x); ta_recv := ta_recv x |}.
Definition rl_mut (x : mut_ann) : mut_ann := {| ma_type := ma_type x; ma_field := ma_field x; ma_pos := phi (ma_pos x) |}.
Definition rl_pkgo (x : pkgo_ann) : pkgo_ann :=
  {| pa_kind := pa_kind x; pa_name := pa_name x; pa_pos := phi (pa_pos x); pa_recv := pa_recv x; pa_allowed := pa_allowed x |}.
Definition rl_annots (a : annots) : annots :=
  {| an_impl := map rl_impl (an_impl a); an_ctor := map rl_ctor (an_ctor a); an_imm := map rl_imm (an_imm a);
     an_tonl := map rl_tonl (an_tonl a); an_mut := map rl_mut (an_mut a); an_pkgo := map rl_pkgo (an_pkgo a) |}.

Lemma rl_annots_app a b : rl_annots (annots_app a b) = annots_app (rl_annots a) (rl_annots b).
Proof. unfold rl_annots, annots_app. cbn. rewrite !map_app. reflexivity. Qed.

Lemma concat_annots_rl l : concat_annots (map rl_annots l) = rl_annots (concat_annots l).
Proof. induction l as [|a r IH]; [reflexivity|]. cbn [map concat_annots fold_right]. fold (concat_annots (map rl_annots r)). fold (concat_annots r). rewrite IH, rl_annots_app. reflexivity. Qed.

Lemma doc_lines_rl n : doc_lines (rl n) = doc_lines n.
Proof.
  unfold doc_lines. rewrite rl_children. destruct (n_children n) as [|c r]; [reflexivity|]. cbn [map].
  destruct c as [k p e a cs]. cbn [LayoutProofs.rl]. destruct k; try reflexivity.
  destruct (String.eqb (a_tok a) "doc"); [|reflexivity]. f_equal.
  rewrite map_map. apply map_ext. intros c. rewrite rl_attrs. reflexivity.
Qed.

Lemma map_flat_map {A B C} (g : B -> C) (f : A -> list B) l : map g (flat_map f l) = flat_map (fun x => map g (f x)) l.
Proof. induction l as [|x r IH]; [reflexivity|]. cbn [flat_map]. rewrite map_app, IH. reflexivity. Qed.

Lemma flat_map_ext' {A B} (f g : A -> list B) l : (forall x, f x = g x) -> flat_map f l = flat_map g l.
Proof. intros H. induction l as [|x r IH]; [reflexivity|]. cbn [flat_map]. rewrite H, IH. reflexivity. Qed.

Section Reader.
Variables re_impl re_ctor re_imm re_tonl re_mut re_pkgo : re.
Variable keywords : list string.

Lemma field_mutables_rl tn spec :
  field_mutables re_mut keywords tn (rl spec) = map rl_mut (field_mutables re_mut keywords tn spec).
Proof.
  unfold field_mutables. rewrite rl_children. rewrite (filter_map_rl phi) by (intros m; rewrite rl_kind; reflexivity).
  destruct (filter (fun c => kind_eqb (n_kind c) KStructType) (n_children spec)) as [|st r]; [reflexivity|]. cbn [map]. rewrite rl_children.
  destruct (n_children st) as [|fl r']; [reflexivity|]. cbn [map]. rewrite rl_children.
  rewrite flat_map_map, map_flat_map. apply flat_map_ext'. intros fld. rewrite rl_attrs.
  destruct (Nat.eqb (a_n (n_attrs fld)) 0); [reflexivity|].
  rewrite doc_lines_rl. destruct (doc_lines fld) as [docs|]; [|reflexivity].
  rewrite plain_children_rl, firstn_map, flat_map_map, map_flat_map. apply flat_map_ext'. intros nm.
  rewrite map_flat_map. apply flat_map_ext'. intros text. rewrite rl_attrs, rl_pos.
  destruct (prefilter keywords text && str_contains text "@mutable" && parse_mutable re_mut text); reflexivity.
Qed.

Lemma type_line_rl cur imps spec text :
  type_line re_impl re_ctor re_imm re_tonl re_mut re_pkgo keywords cur imps (rl spec) text =
  rl_annots (type_line re_impl re_ctor re_imm re_tonl re_mut re_pkgo keywords cur imps spec text).
Proof.
  unfold type_line. rewrite rl_attrs, rl_pos, field_mutables_rl.
  destruct (negb (prefilter keywords text)); [reflexivity|]. unfold rl_annots. cbn [an_impl an_ctor an_imm an_tonl an_mut an_pkgo].
  f_equal.
  - destruct (str_contains text "@implements"); [|reflexivity]. destruct (parse_implements re_impl text) as [[[ptr pk] iface]|]; [|reflexivity].
    destruct (resolve_qualifier cur imps pk) as [full nf]. reflexivity.
  - destruct (str_contains text "@constructor"); [|reflexivity]. destruct (parse_constructor re_ctor text); reflexivity.
  - destruct (str_contains text "@immutable" && parse_immutable re_imm text); reflexivity.
  - destruct (str_contains text "@testonly" && parse_testonly re_tonl text); reflexivity.
  - destruct (str_contains text "@immutable" && parse_immutable re_imm text); reflexivity.
  - destruct (str_contains text "@packageonly"); [|reflexivity]. destruct (parse_packageonly re_pkgo text); reflexivity.
Qed.

Lemma func_line_rl cur fd text :
  func_line re_tonl re_pkgo keywords cur (rl fd) text = rl_annots (func_line re_tonl re_pkgo keywords cur fd text).
Proof.
  unfold func_line. rewrite rl_attrs, rl_pos, (func_recv_type_rl phi).
  destruct (negb (prefilter keywords text)); [reflexivity|].
  destruct (if a_flag (n_attrs fd) then (AKMethod, func_recv_type fd) else (AKFunc, "")) as [k rt].
  unfold rl_annots. cbn [an_impl an_ctor an_imm an_tonl an_mut an_pkgo map]. f_equal.
  - destruct (str_contains text "@testonly" && parse_testonly re_tonl text); reflexivity.
  - destruct (str_contains text "@packageonly"); [|reflexivity]. destruct (parse_packageonly re_pkgo text); reflexivity.
Qed.

Lemma type_decl_annots_rl cur imps d :
  type_decl_annots re_impl re_ctor re_imm re_tonl re_mut re_pkgo keywords cur imps (rl d) =
  rl_annots (type_decl_annots re_impl re_ctor re_imm re_tonl re_mut re_pkgo keywords cur imps d).
Proof.
  unfold type_decl_annots. rewrite rl_kind, rl_attrs, rl_children.
  destruct (kind_eqb (n_kind d) KGenDecl && String.eqb (a_tok (n_attrs d)) "type"); [|reflexivity].
  rewrite <- concat_annots_rl. f_equal. rewrite !map_map. apply map_ext. intros spec. rewrite rl_kind, rl_attrs.
  destruct (kind_eqb (n_kind spec) KTypeSpec); [|reflexivity]. rewrite !doc_lines_rl.
  destruct (match (if a_flag (n_attrs spec) then doc_lines spec else None) with Some l => Some l | None => doc_lines d end) as [lines|]; [|reflexivity].
  rewrite <- concat_annots_rl. f_equal. rewrite map_map. apply map_ext. intros text. apply type_line_rl.
Qed.

Lemma func_decl_annots_rl cur d :
  func_decl_annots re_tonl re_pkgo keywords cur (rl d) = rl_annots (func_decl_annots re_tonl re_pkgo keywords cur d).
Proof.
  unfold func_decl_annots. rewrite rl_kind. destruct (kind_eqb (n_kind d) KFuncDecl); [|reflexivity].
  rewrite doc_lines_rl. destruct (doc_lines d) as [lines|]; [|reflexivity].
  rewrite <- concat_annots_rl. f_equal. rewrite map_map. apply map_ext. intros text. apply func_line_rl.
Qed.

Lemma file_annots_rl cur f :
  file_annots re_impl re_ctor re_imm re_tonl re_mut re_pkgo keywords cur (rlf f) =
  rl_annots (file_annots re_impl re_ctor re_imm re_tonl re_mut re_pkgo keywords cur f).
Proof.
  unfold file_annots. cbn [rlf f_decls f_imports]. rewrite rl_annots_app, <- !concat_annots_rl, !map_map. f_equal; f_equal; apply map_ext; intros d.
  - apply type_decl_annots_rl.
  - apply func_decl_annots_rl.
Qed.

Lemma read_all_rl cfg p :
  read_all re_impl re_ctor re_imm re_tonl re_mut re_pkgo keywords cfg (rlp p) =
  rl_annots (read_all re_impl re_ctor re_imm re_tonl re_mut re_pkgo keywords cfg p).
Proof.
  unfold read_all. rewrite kept_files_rlp. cbn [rlp p_path]. rewrite <- concat_annots_rl, !map_map. f_equal. apply map_ext. intros f. apply file_annots_rl.
Qed.
End Reader.


(* ---- the indices never look at a recorded position: facts that differ in positions only answer alike ---- *)
Definition er (a : annots) : annots :=
  {| an_impl := map (fun x => {| ia_type := ia_type x; ia_pos := 0; ia_iface := ia_iface x; ia_pkgname := ia_pkgname x; ia_ptr := ia_ptr x;
                                 ia_fullpath := ia_fullpath x; ia_notfound := ia_notfound x |}) (an_impl a);
     an_ctor := map (fun x => {| ca_type := ca_type x; ca_pos := 0; ca_names := ca_names x |}) (an_ctor a);
     an_imm := map (fun x => {| ima_type := ima_type x; ima_pos := 0 |}) (an_imm a);
     an_tonl := map (fun x => {| ta_kind := ta_kind x; ta_name := ta_name x; ta_pos := 0; ta_recv := ta_recv x |}) (an_tonl a);
     an_mut := map (fun x => {| ma_type := ma_type x; ma_field := ma_field x; ma_pos := 0 |}) (an_mut a);
     an_pkgo := map (fun x => {| pa_kind := pa_kind x; pa_name := pa_name x; pa_pos := 0; pa_recv := pa_recv x; pa_allowed := pa_allowed x |}) (an_pkgo a) |}.
Definition er_facts (fs : facts) : facts := map (fun pa => (fst pa, er (snd pa))) fs.

Lemma er_rl a : er (rl_annots a) = er a.
Proof. unfold er, rl_annots. cbn. rewrite !map_map. reflexivity. Qed.

Lemma existsb_map {A B} (g : A -> B) (q : B -> bool) l : existsb q (map g l) = existsb (fun x => q (g x)) l.
Proof. induction l as [|x r IH]; [reflexivity|]. cbn. rewrite IH. reflexivity. Qed.
Lemma forallb_map {A B} (g : A -> B) (q : B -> bool) l : forallb q (map g l) = forallb (fun x => q (g x)) l.
Proof. induction l as [|x r IH]; [reflexivity|]. cbn. rewrite IH. reflexivity. Qed.

Lemma existsb_ext' {A} (f g : A -> bool) l : (forall x, f x = g x) -> existsb f l = existsb g l.
Proof. intros H. induction l as [|x r IH]; [reflexivity|]. cbn. rewrite H, IH. reflexivity. Qed.
Lemma forallb_ext' {A} (f g : A -> bool) l : (forall x, f x = g x) -> forallb f l = forallb g l.
Proof. intros H. induction l as [|x r IH]; [reflexivity|]. cbn. rewrite H, IH. reflexivity. Qed.

Lemma facts_for_er fs pkg : facts_for (er_facts fs) pkg = map er (facts_for fs pkg).
Proof.
  unfold facts_for, er_facts. induction fs as [|pa r IH]; [reflexivity|]. cbn [map filter fst snd].
  destruct (String.eqb (fst pa) pkg); cbn [map snd]; [f_equal|]; exact IH.
Qed.

Lemma imm_contains_er fs p t : imm_contains (er_facts fs) p t = imm_contains fs p t.
Proof. unfold imm_contains. rewrite facts_for_er, existsb_map. apply existsb_ext'. intros a. unfold er. cbn [an_imm]. rewrite existsb_map. reflexivity. Qed.
Lemma mut_match_er fs p f t : mut_match (er_facts fs) p f t = mut_match fs p f t.
Proof. unfold mut_match. rewrite facts_for_er, existsb_map. apply existsb_ext'. intros a. unfold er. cbn [an_mut]. rewrite existsb_map. reflexivity. Qed.
Lemma ctor_names_er fs p t : ctor_names (er_facts fs) p t = ctor_names fs p t.
Proof. unfold ctor_names. rewrite facts_for_er, flat_map_map. apply flat_map_ext'. intros a. unfold er. cbn [an_ctor]. rewrite flat_map_map. reflexivity. Qed.
Lemma tonl_type_er fs p t : tonl_type (er_facts fs) p t = tonl_type fs p t.
Proof. unfold tonl_type. rewrite facts_for_er, existsb_map. apply existsb_ext'. intros a. unfold er. cbn [an_tonl]. rewrite existsb_map. reflexivity. Qed.
Lemma tonl_func_er fs p f : tonl_func (er_facts fs) p f = tonl_func fs p f.
Proof. unfold tonl_func. rewrite facts_for_er, existsb_map. apply existsb_ext'. intros a. unfold er. cbn [an_tonl]. rewrite existsb_map. reflexivity. Qed.
Lemma tonl_method_er fs p m r : tonl_method (er_facts fs) p m r = tonl_method fs p m r.
Proof. unfold tonl_method. rewrite facts_for_er, existsb_map. apply existsb_ext'. intros a. unfold er. cbn [an_tonl]. rewrite existsb_map. reflexivity. Qed.
Lemma pkgo_attach_er fs k p r n : pkgo_attach (er_facts fs) k p r n = pkgo_attach fs k p r n.
Proof. unfold pkgo_attach. rewrite facts_for_er, flat_map_map. apply flat_map_ext'. intros a. unfold er. cbn [an_pkgo]. rewrite flat_map_map. reflexivity. Qed.
Lemma imm_index_empty_er fs : imm_index_empty (er_facts fs) = imm_index_empty fs.
Proof. unfold imm_index_empty, er_facts. rewrite forallb_map. apply forallb_ext'. intros pa. cbn [snd er an_imm]. destruct (an_imm (snd pa)); reflexivity. Qed.
Lemma ctor_index_empty_er fs : ctor_index_empty (er_facts fs) = ctor_index_empty fs.
Proof. unfold ctor_index_empty, er_facts. rewrite forallb_map. apply forallb_ext'. intros pa. cbn [snd er an_ctor]. rewrite forallb_map. reflexivity. Qed.
Lemma tonl_has_er k fs : tonl_has k (er_facts fs) = tonl_has k fs.
Proof. unfold tonl_has, er_facts. rewrite existsb_map. apply existsb_ext'. intros pa. cbn [snd er an_tonl]. rewrite existsb_map. reflexivity. Qed.
Lemma pkgo_index_empty_er fs : pkgo_index_empty (er_facts fs) = pkgo_index_empty fs.
Proof. unfold pkgo_index_empty, er_facts. rewrite forallb_map. apply forallb_ext'. intros pa. cbn [snd er an_pkgo]. destruct (an_pkgo (snd pa)); reflexivity. Qed.

(* ---- @implements: the same diagnostics at the relabelled type names ---- *)
Lemma impl_candidates_rl tt cur imps anns :
  impl_candidates tt cur imps (map rl_impl anns) = map (rd phi) (impl_candidates tt cur imps anns).
Proof.
  unfold impl_candidates. rewrite !map_app, !flat_map_map, !map_flat_map. f_equal; [|f_equal]; apply flat_map_ext'; intros a.
  - unfold impl01. cbn [rl_impl ia_notfound ia_pos ia_pkgname ia_type]. destruct (ia_notfound a); reflexivity.
  - unfold impl02, pkg_prefix. cbn [rl_impl ia_notfound ia_pos ia_pkgname ia_type ia_fullpath ia_iface]. destruct (ia_notfound a); [reflexivity|].
    destruct (find_iface tt cur imps (ia_fullpath a) (ia_iface a)); reflexivity.
  - unfold impl03, pkg_prefix. cbn [rl_impl ia_notfound ia_pos ia_pkgname ia_type ia_fullpath ia_iface ia_ptr]. destruct (ia_notfound a); [reflexivity|].
    destruct (find_iface tt cur imps (ia_fullpath a) (ia_iface a)) as [d|]; [|reflexivity].
    destruct (find_type tt (ia_type a)) as [td|]; [|reflexivity].
    destruct (missing_methods td d (ia_ptr a)); reflexivity.
Qed.

(* ---- the whole analysis ---- *)
Definition rl_result (r : aresult) : aresult :=
  match r with AOk own ds => AOk (rl_annots own) (map (rd phi) ds) | APanic s => APanic s end.

(* the checkers read the declarations and the name of a file only *)
Lemma imm_files fs cur files : imm_candidates fs cur (map rlf files) = imm_candidates fs cur (map (rl_file phi) files).
Proof. unfold imm_candidates. destruct (imm_index_empty fs); [reflexivity|]. rewrite !flat_map_map. reflexivity. Qed.
Lemma ctor_files fs cur files : ctor_candidates fs cur (map rlf files) = ctor_candidates fs cur (map (rl_file phi) files).
Proof. unfold ctor_candidates. destruct (ctor_index_empty fs); [reflexivity|]. rewrite !flat_map_map. reflexivity. Qed.
Lemma tonl_files fs cur sup files : tonl_diags fs cur sup (map rlf files) = tonl_diags fs cur sup (map (rl_file phi) files).
Proof. unfold tonl_diags. destruct (negb (tonl_has AKType fs) && negb (tonl_has AKFunc fs) && negb (tonl_has AKMethod fs)); [reflexivity|]. rewrite !flat_map_map. reflexivity. Qed.
Lemma pkgo_files fs cur cn sup files : pkgo_diags fs cur cn sup (map rlf files) = pkgo_diags fs cur cn sup (map (rl_file phi) files).
Proof. unfold pkgo_diags. destruct (pkgo_index_empty fs); [reflexivity|]. rewrite !flat_map_map. reflexivity. Qed.

Theorem analyze_relayout cfg p all :
  x_pos_ok cfg p = true -> x_analyze cfg (rlp p) all = rl_result (x_analyze cfg p all).
Proof.
  intros Hok. unfold x_analyze, x_read_all, x_ignore_ops. rewrite read_all_rl, ignore_ops_rlp.
  destruct (ignore_ops re_ignore kw_ignore cfg p) as [ops|] eqn:Eo; cbn [option_map rl_result]; [|reflexivity].
  assert (Hp : ops_positive ops) by (eapply ignore_ops_positive; [exact Hok|exact Eo]).
  set (own := read_all re_implements re_constructor re_immutable re_testonly re_mutable re_packageonly kw_annotations cfg p).
  f_equal. rewrite kept_files_rlp. cbn [rlp p_types p_path p_imports p_name rl_annots an_impl].
  set (fs := x_facts p own all). set (fs' := x_facts (rlp p) (rl_annots own) all).
  assert (He : er_facts fs' = er_facts fs).
  { unfold fs', fs, x_facts. cbn [rlp p_path p_imports er_facts map fst snd]. rewrite er_rl. reflexivity. }
  assert (Hs : forall c q, x_suppressed (map rl_op ops) c (phi q) = x_suppressed ops c q) by (intros c q; apply suppressed_rl; exact Hp).
  rewrite !map_app, imm_files, ctor_files, tonl_files, pkgo_files.
  rewrite impl_candidates_rl, (report_filter_rl phi (x_suppressed ops) (x_suppressed (map rl_op ops)) Hs).
  rewrite (imm_candidates_rl_gen phi fs fs').
  2:{ intros q t. rewrite <- (imm_contains_er fs'), He. apply imm_contains_er. }
  2:{ intros q f t. rewrite <- (mut_match_er fs'), He. apply mut_match_er. }
  2:{ intros q t. rewrite <- (ctor_names_er fs'), He. apply ctor_names_er. }
  2:{ rewrite <- (imm_index_empty_er fs'), He. apply imm_index_empty_er. }
  rewrite (report_filter_rl phi (x_suppressed ops) (x_suppressed (map rl_op ops)) Hs).
  rewrite (ctor_candidates_rl_gen phi fs fs').
  2:{ intros q t. rewrite <- (ctor_names_er fs'), He. apply ctor_names_er. }
  2:{ rewrite <- (ctor_index_empty_er fs'), He. apply ctor_index_empty_er. }
  rewrite (report_filter_rl phi (x_suppressed ops) (x_suppressed (map rl_op ops)) Hs).
  rewrite (tonl_diags_rl_gen phi fs fs' (p_path p)) with (sup := x_suppressed ops).
  2:{ intros q t. rewrite <- (tonl_type_er fs'), He. apply tonl_type_er. }
  2:{ intros q f. rewrite <- (tonl_func_er fs'), He. apply tonl_func_er. }
  2:{ intros q m r. rewrite <- (tonl_method_er fs'), He. apply tonl_method_er. }
  2:{ intros k. rewrite <- (tonl_has_er k fs'), He. apply tonl_has_er. }
  2:{ exact Hs. }
  rewrite (pkgo_diags_rl_gen phi fs fs' (p_path p) (p_name p)) with (sup := x_suppressed ops).
  2:{ intros k q r n. rewrite <- (pkgo_attach_er fs'), He. apply pkgo_attach_er. }
  2:{ rewrite <- (pkgo_index_empty_er fs'), He. apply pkgo_index_empty_er. }
  2:{ exact Hs. }
  reflexivity.
Qed.

End Relayout.
