(* Meaning of the string predicates used by file filtering: prefix, suffix, substring. *)
From Coq Require Import List String Ascii Bool.
From GG Require Import Base.Strs.
Import ListNotations.
Local Open Scope string_scope.

Lemma sapp_nil (s : string) : s ++ "" = s.
Proof. induction s; simpl; congruence. Qed.
Lemma sapp_assoc' (a b c : string) : (a ++ b) ++ c = a ++ (b ++ c).
Proof. induction a; simpl; congruence. Qed.

Theorem has_prefix_spec p s : has_prefix p s = true <-> exists post, s = p ++ post.
Proof.
  revert s. induction p as [|a p IH]; intros s; simpl.
  - split; [intros _; exists s; reflexivity|reflexivity].
  - destruct s as [|b s].
    + split; [discriminate|intros [post H]; discriminate].
    + rewrite andb_true_iff, IH. split.
      * intros [E [post ->]]. apply Ascii.eqb_eq in E. subst. exists post. reflexivity.
      * intros [post H]. inversion H; subst. split; [apply Ascii.eqb_refl|exists post; reflexivity].
Qed.

Theorem str_contains_spec s sub : str_contains s sub = true <-> exists pre post, s = pre ++ sub ++ post.
Proof.
  induction s as [|a s IH]; simpl.
  - rewrite orb_false_r, has_prefix_spec. split.
    + intros [post H]. exists "", post. exact H.
    + intros [pre [post H]]. destruct pre; [exists post; exact H|discriminate].
  - rewrite orb_true_iff, has_prefix_spec, IH. split.
    + intros [[post H]|[pre [post H]]].
      * exists "", post. exact H.
      * exists (String a pre), post. simpl. rewrite H. reflexivity.
    + intros [pre [post H]]. destruct pre as [|b pre].
      * left. exists post. exact H.
      * right. simpl in H. inversion H; subst. exists pre, post. reflexivity.
Qed.

Lemma rev_acc s acc : rev_string_acc s acc = rev_string s ++ acc.
Proof.
  unfold rev_string. revert acc. induction s as [|a s IH]; intros acc; simpl; [reflexivity|].
  rewrite (IH (String a acc)), (IH (String a "")), sapp_assoc'. reflexivity.
Qed.

Lemma rev_cons a s : rev_string (String a s) = rev_string s ++ String a "".
Proof. unfold rev_string at 1. simpl. apply rev_acc. Qed.

Lemma rev_app a b : rev_string (a ++ b) = rev_string b ++ rev_string a.
Proof.
  induction a as [|x a IH]; simpl; [rewrite sapp_nil; reflexivity|].
  rewrite !rev_cons, IH, sapp_assoc'. reflexivity.
Qed.

Lemma rev_rev s : rev_string (rev_string s) = s.
Proof. induction s as [|a s IH]; [reflexivity|]. rewrite rev_cons, rev_app, IH. reflexivity. Qed.

Theorem has_suffix_spec suf s : has_suffix suf s = true <-> exists pre, s = pre ++ suf.
Proof.
  unfold has_suffix. rewrite has_prefix_spec. split.
  - intros [post H]. exists (rev_string post).
    rewrite <- (rev_rev s), H, rev_app, rev_rev. reflexivity.
  - intros [pre ->]. exists (rev_string pre). apply rev_app.
Qed.
