(* C11 / C07: suppression is file-local.  The markers that the @ignore comments of a file give rise to lie inside that file's
   range of positions; ranges of different files are disjoint (token.FileSet), in whatever order the files were given their
   base - so a position of one file is never covered by a marker of another, and the decision for it depends on its own file's
   comments (and the project-wide exclusion) only, independently of the order in which the files were parsed. *)
From Coq Require Import List String ZArith Bool Lia.
From GG Require Import Base.Strs Model.Codes Model.IgnoreSet Model.Config Model.GoTypes Model.GoAst Model.RegexSyntax Model.Regex Model.Annot
                       Model.Annots Model.Analyze Extracted Exec Proofs.WalkProofs Proofs.IgnoreSetProofs Proofs.OpsProofs.
Import ListNotations.
Local Open Scope string_scope.
Local Open Scope Z_scope.

(* the range of positions of a file: from its first line start to its end *)
Definition span_lo (f : file) : Z := match f_lines f with [] => 1 | l :: _ => l end.
(* ast.File.End() is the end of the last declaration: comments may follow it *)
Definition span_hi (f : file) : Z := fold_left Z.max (map c_end (List.concat (f_comments f))) (f_end f).

Lemma fold_max_ge_init l a : a <= fold_left Z.max l a.
Proof. revert a. induction l as [|x r IH]; intros a; cbn [fold_left]; [lia|]. specialize (IH (Z.max a x)). lia. Qed.
Lemma fold_max_ge_in l a x : In x l -> x <= fold_left Z.max l a.
Proof.
  revert a. induction l as [|y r IH]; intros a Hx; [contradiction|]. cbn [fold_left]. destruct Hx as [<-|Hx]; [|apply IH; exact Hx].
  pose proof (fold_max_ge_init r (Z.max a y)). lia.
Qed.
Lemma span_hi_end f : f_end f <= span_hi f. Proof. apply fold_max_ge_init. Qed.
Lemma span_hi_comment f c : In c (List.concat (f_comments f)) -> c_end c <= span_hi f.
Proof. intros H. apply fold_max_ge_in. apply in_map. exact H. Qed.
Definition in_span (f : file) (q : Z) : Prop := span_lo f <= q <= span_hi f.

Fixpoint node_in (lo hi : Z) (n : node) : bool :=
  let 'Node _ p e _ cs := n in
  (lo <=? p) && (p <=? hi) && (lo <=? e) && (e <=? hi) &&
  (fix go (l : list node) : bool := match l with [] => true | c :: r => node_in lo hi c && go r end) cs.

(* input condition, a boolean evaluated on every serialised package: everything of a file lies in its range *)
Definition file_range_ok (f : file) : bool :=
  forallb (node_in (span_lo f) (span_hi f)) (f_decls f) &&
  forallb (fun c => span_lo f <=? c_pos c) (List.concat (f_comments f)) &&
  forallb (fun l => span_lo f <=? l) (f_lines f).

Lemma node_in_all lo hi n : node_in lo hi n = true -> forall x, In x (preorder n) -> lo <= n_pos x /\ n_end x <= hi.
Proof.
  induction n as [k p e a cs IH] using node_ind'. intros H x Hx. cbn [node_in] in H.
  apply andb_true_iff in H. destruct H as [H Hcs]. apply andb_true_iff in H. destruct H as [H H4]. apply andb_true_iff in H. destruct H as [H H3].
  apply andb_true_iff in H. destruct H as [H1 H2]. apply Z.leb_le in H1, H2, H3, H4.
  rewrite preorder_unfold in Hx. destruct Hx as [<-|Hx]; [cbn [n_pos n_end]; lia|].
  cbn [n_children] in Hx. unfold preorder_list in Hx. apply in_flat_map in Hx. destruct Hx as [c [Hc Hx]].
  assert (Hc' : node_in lo hi c = true).
  { clear -Hcs Hc. induction cs as [|y r IHr]; [contradiction|]. apply andb_true_iff in Hcs. destruct Hcs as [Hy Hr]. destruct Hc as [<-|Hc]; [exact Hy|exact (IHr Hr Hc)]. }
  rewrite Forall_forall in IH. exact (IH c Hc Hc' x Hx).
Qed.

(* next_visit settles on a node of the tree (or keeps the value it was given) *)
Lemma next_visit_in cpos n best r :
  next_visit cpos n best = Some r -> best = Some r \/ exists x, In x (preorder n) /\ r = (n_pos x, n_end x).
Proof.
  revert best r. induction n as [k p e a cs IH] using node_ind'. intros best r. cbn [next_visit].
  assert (G : forall b r0,
             (fix go (l : list node) (b : option (Z * Z)) : option (Z * Z) := match l with [] => b | c :: r => go r (next_visit cpos c b) end) cs b = Some r0 ->
             b = Some r0 \/ exists x, In x (preorder_list cs) /\ r0 = (n_pos x, n_end x)).
  { induction cs as [|c rest IHr]; intros b r0 Hb; [left; exact Hb|]. inversion IH as [|? ? Hc Hrest]; subst.
    destruct (IHr Hrest _ _ Hb) as [E|[x [Hx E]]].
    - destruct (Hc _ _ E) as [E'|[x [Hx E']]]; [left; exact E'|]. right. exists x. split; [|exact E']. unfold preorder_list. cbn [flat_map]. apply in_or_app. left. exact Hx.
    - right. exists x. split; [|exact E]. unfold preorder_list in *. cbn [flat_map]. apply in_or_app. right. exact Hx. }
  assert (Self : In (Node k p e a cs) (preorder (Node k p e a cs))) by (rewrite preorder_unfold; left; reflexivity).
  assert (Sub : forall x, In x (preorder_list cs) -> In x (preorder (Node k p e a cs))) by (intros x Hx; rewrite preorder_unfold; right; exact Hx).
  destruct (p <=? cpos).
  - intros H. destruct (G _ _ H) as [E|[x [Hx E]]]; [left; exact E|right; exists x; split; [apply Sub; exact Hx|exact E]].
  - destruct best as [[bp be]|].
    + destruct (p <? bp).
      * intros H. injection H as <-. right. exists (Node k p e a cs). split; [exact Self|reflexivity].
      * intros H. destruct (G _ _ H) as [E|[x [Hx E]]]; [left; exact E|right; exists x; split; [apply Sub; exact Hx|exact E]].
    + intros H. injection H as <-. right. exists (Node k p e a cs). split; [exact Self|reflexivity].
Qed.

Section Reader.
Variable re_ign : RegexSyntax.re.
Variable kw : list string.

Lemma scope_in_span f c s e :
  file_range_ok f = true -> In c (List.concat (f_comments f)) -> comment_scope f c = Some (s, e) -> span_lo f <= s /\ e <= span_hi f.
Proof.
  unfold file_range_ok. intros H Hc. apply andb_true_iff in H. destruct H as [H Hl]. apply andb_true_iff in H. destruct H as [Hd Hcm].
  rewrite forallb_forall in Hd, Hcm, Hl. specialize (Hcm c Hc). rename Hcm into Hc1. apply Z.leb_le in Hc1.
  pose proof (span_hi_comment f c Hc) as Hc2. pose proof (span_hi_end f) as He.
  assert (Hnode : forall d x, In d (f_decls f) -> In x (preorder d) -> span_lo f <= n_pos x /\ n_end x <= span_hi f).
  { intros d x Hdd Hx. exact (node_in_all _ _ d (Hd d Hdd) x Hx). }
  unfold comment_scope. destruct (c_pos c <? f_package f).
  - intros E. injection E as <- <-. lia.
  - destruct (find_inline f c) as [s' e'| |] eqn:Ei; [| |discriminate].
    + intros E. injection E as <- <-. pose proof (find_inline_start f c s' e' Ei) as Hin. specialize (Hl s' Hin). apply Z.leb_le in Hl.
      assert (e' = c_end c).
      { revert Ei. unfold find_inline. cbv zeta.
        destruct (match first_index _ _ 0 with O => false | S j => _ end).
        - destruct (line_start f (line_of f (c_pos c))); [|discriminate]. intros E. injection E as _ <-. reflexivity.
        - destruct (nth_error (f_decls f) _) as [d|]; [|discriminate]. destruct (c_pos c <? n_pos d); [discriminate|].
          destruct (has_code_on_line f (c_pos c) (line_of f (c_pos c)) d); [|discriminate].
          destruct (line_start f (line_of f (c_pos c))); [|discriminate]. intros E. injection E as _ <-. reflexivity. }
      subst e'. lia.
    + intros E. injection E as <- <-. split; [exact Hc1|].
      destruct (find_next_end f (c_pos c) =? 0) eqn:E0; [exact Hc2|].
      unfold find_next_end in *. destruct (nth_error (f_decls f) _) as [d|] eqn:En; [|discriminate].
      apply nth_error_In in En.
      destruct (c_pos c <? n_pos d).
      * apply (Hnode d d En). rewrite preorder_unfold. left. reflexivity.
      * destruct (next_visit (c_pos c) d None) as [[a b]|] eqn:Ev; [|discriminate].
        destruct (next_visit_in _ _ _ _ Ev) as [E|[x [Hx E]]]; [discriminate|]. injection E as _ ->. apply (Hnode d x En Hx).
Qed.

Definition ops_in (lo hi : Z) (ops : list op) : Prop := forall cs st en, In (OpAdd cs st en) ops -> lo <= st /\ en <= hi.

Lemma ops_comments_in_span f cs ops :
  file_range_ok f = true -> (forall c, In c cs -> In c (List.concat (f_comments f))) ->
  ignore_ops_comments re_ign kw f cs = Some ops -> ops_in (span_lo f) (span_hi f) ops /\ (forall g, ~ In (OpGlobal g) ops).
Proof.
  intros Hok. revert ops. induction cs as [|c r IH]; intros ops Hsub; cbn [ignore_ops_comments].
  - intros H. injection H as <-. split; [intros ? ? ? []|intros g []].
  - destruct (ignore_ops_comments re_ign kw f r) as [rest|]; [|discriminate].
    destruct (IH rest (fun c0 Hc0 => Hsub c0 (or_intror Hc0)) eq_refl) as [Hr Hg].
    destruct (is_ignore_comment kw (c_text c)); [|intros H; injection H as <-; split; assumption].
    destruct (comment_scope f c) as [[s e]|] eqn:Es; [|discriminate].
    destruct (parse_ignore re_ign (c_text c)) as [codes|]; intros H; injection H as <-; [|split; assumption].
    split.
    + intros cs0 st en [Hx|Hx]; [|exact (Hr cs0 st en Hx)]. injection Hx as _ <- <-.
      exact (scope_in_span f c s e Hok (Hsub c (or_introl eq_refl)) Es).
    + intros g [Hx|Hx]; [discriminate|exact (Hg g Hx)].
Qed.
End Reader.

(* a marker that lies in a range cannot cover a position outside that range *)
Lemma covers_outside lo hi ops c q :
  ops_in lo hi ops -> (forall g, ~ In (OpGlobal g) ops) -> (q < lo \/ hi < q) -> existsb (covers x_all codes_table c q) ops = false.
Proof.
  intros Hin Hg Hq. induction ops as [|o r IH]; [reflexivity|]. cbn [existsb].
  rewrite IH; [|intros cs st en H; apply (Hin cs st en); right; exact H|intros g H; apply (Hg g); right; exact H]. rewrite orb_false_r.
  destruct o as [cs st en|g]; [|exfalso; apply (Hg g); left; reflexivity].
  destruct (Hin cs st en (or_introl eq_refl)) as [H1 H2]. unfold covers.
  destruct (st <=? q) eqn:E1; [|reflexivity]. destruct (q <=? en) eqn:E2; [|reflexivity]. apply Z.leb_le in E1, E2. lia.
Qed.

(* THE THEOREM: among the kept files A ++ g :: B of a package with pairwise disjoint ranges, the suppression decision at a
   position of g is the decision under g's own comments and the project-wide exclusion alone *)
Theorem suppression_is_file_local cfg (A B : list file) (g : file) oa og ob c q :
  forallb file_range_ok (A ++ g :: B) = true ->
  forallb file_pos_ok (A ++ g :: B) = true ->
  (forall f, In f (A ++ B) -> span_hi f < span_lo g \/ span_hi g < span_lo f) ->
  ignore_ops_files re_ignore kw_ignore A = Some oa ->
  ignore_ops_comments re_ignore kw_ignore g (List.concat (f_comments g)) = Some og ->
  ignore_ops_files re_ignore kw_ignore B = Some ob ->
  in_span g q ->
  let glob := fun ops : list op => match exclude_checks cfg with [] => ops | cs => OpGlobal cs :: ops end in
  x_suppressed (glob (oa ++ og ++ ob)%list) c q = x_suppressed (glob og) c q.
Proof.
  intros Hr Hp Hdis Ha Hg Hb Hq glob.
  assert (FilesIn : forall fl o, forallb file_range_ok fl = true -> ignore_ops_files re_ignore kw_ignore fl = Some o ->
                     (forall f, In f fl -> span_hi f < span_lo g \/ span_hi g < span_lo f) ->
                     existsb (covers x_all codes_table c q) o = false).
  { induction fl as [|f r IH]; intros o Hok Ho Hd; cbn [ignore_ops_files] in Ho.
    - injection Ho as <-. reflexivity.
    - cbn [forallb] in Hok. apply andb_true_iff in Hok. destruct Hok as [Hf Hrest].
      destruct (ignore_ops_comments re_ignore kw_ignore f (List.concat (f_comments f))) as [a|] eqn:Ea; [|discriminate].
      destruct (ignore_ops_files re_ignore kw_ignore r) as [b|] eqn:Eb; [|discriminate]. injection Ho as <-.
      rewrite existsb_app. rewrite (IH b Hrest eq_refl (fun f0 H0 => Hd f0 (or_intror H0))), orb_false_r.
      destruct (ops_comments_in_span re_ignore kw_ignore f _ a Hf (fun c0 H0 => H0) Ea) as [Hin Hng].
      apply (covers_outside (span_lo f) (span_hi f) a c q Hin Hng).
      unfold in_span in Hq. destruct (Hd f (or_introl eq_refl)); lia. }
  rewrite forallb_app in Hr, Hp. apply andb_true_iff in Hr, Hp. destruct Hr as [HrA HrgB], Hp as [HpA HpgB].
  cbn [forallb] in HrgB, HpgB. apply andb_true_iff in HrgB, HpgB. destruct HrgB as [Hrg HrB], HpgB as [Hpg HpB].
  assert (EA : existsb (covers x_all codes_table c q) oa = false) by (apply (FilesIn A oa HrA Ha); intros f Hf; apply Hdis; apply in_or_app; left; exact Hf).
  assert (EB : existsb (covers x_all codes_table c q) ob = false) by (apply (FilesIn B ob HrB Hb); intros f Hf; apply Hdis; apply in_or_app; right; exact Hf).
  assert (PA : ops_positive oa) by (eapply ignore_ops_files_positive; [exact HpA|exact Ha]).
  assert (PB : ops_positive ob) by (eapply ignore_ops_files_positive; [exact HpB|exact Hb]).
  assert (PG : ops_positive og).
  { unfold file_pos_ok in Hpg. apply andb_true_iff in Hpg. destruct Hpg as [H1 H2]. rewrite forallb_forall in H1, H2.
    eapply ignore_ops_comments_positive; [| |exact Hg]; [intros c0 Hc0; apply Z.leb_le; apply H1; exact Hc0|intros l Hl; apply Z.leb_le; apply H2; exact Hl]. }
  assert (Pall : ops_positive (glob (oa ++ og ++ ob)%list)).
  { unfold glob. assert (P0 : ops_positive (oa ++ og ++ ob)%list).
    { intros cs st en Hin. apply in_app_or in Hin. destruct Hin as [Hin|Hin]; [exact (PA cs st en Hin)|]. apply in_app_or in Hin. destruct Hin as [Hin|Hin]; [exact (PG cs st en Hin)|exact (PB cs st en Hin)]. }
    destruct (exclude_checks cfg); [exact P0|]. intros cs st en [Hx|Hx]; [discriminate|exact (P0 cs st en Hx)]. }
  assert (Pg : ops_positive (glob og)).
  { unfold glob. destruct (exclude_checks cfg); [exact PG|]. intros cs st en [Hx|Hx]; [discriminate|exact (PG cs st en Hx)]. }
  unfold x_suppressed, x_is_contains, x_is_run.
  rewrite (contains_run x_all codes_table _ c q Pall), (contains_run x_all codes_table _ c q Pg).
  unfold spec, glob. destruct (exclude_checks cfg) as [|e0 es]; cbn [existsb]; rewrite !existsb_app, EA, EB, orb_false_r; reflexivity.
Qed.

(* the input condition as one boolean over the kept files of a package: everything of a file inside its range, ranges pairwise disjoint *)
Definition disj_b (f g : file) : bool := (span_hi f <? span_lo g) || (span_hi g <? span_lo f).
Fixpoint pairwise_disj (l : list file) : bool :=
  match l with [] => true | x :: r => forallb (disj_b x) r && pairwise_disj r end.

Lemma pairwise_disj_split A g B : pairwise_disj (A ++ g :: B) = true ->
  forall f, In f (A ++ B) -> span_hi f < span_lo g \/ span_hi g < span_lo f.
Proof.
  induction A as [|a r IH]; cbn [app pairwise_disj]; intros H f Hf.
  - apply andb_true_iff in H. destruct H as [H _]. rewrite forallb_forall in H. specialize (H f Hf). unfold disj_b in H.
    apply orb_true_iff in H. destruct H as [H|H]; apply Z.ltb_lt in H; [right|left]; exact H.
  - apply andb_true_iff in H. destruct H as [Ha Hr]. destruct Hf as [<-|Hf]; [|exact (IH Hr f Hf)].
    rewrite forallb_forall in Ha. assert (Hg : In g (r ++ g :: B)) by (apply in_or_app; right; left; reflexivity).
    specialize (Ha g Hg). unfold disj_b in Ha. apply orb_true_iff in Ha. destruct Ha as [H|H]; apply Z.ltb_lt in H; [left|right]; exact H.
Qed.

Definition x_ranges_ok (cfg : config) (p : package) : bool :=
  forallb file_range_ok (kept_files cfg p) && pairwise_disj (kept_files cfg p).

Theorem package_suppression_is_file_local cfg p A g B oa og ob c q :
  x_ranges_ok cfg p = true -> x_pos_ok cfg p = true -> kept_files cfg p = (A ++ g :: B)%list ->
  ignore_ops_files re_ignore kw_ignore A = Some oa ->
  ignore_ops_comments re_ignore kw_ignore g (List.concat (f_comments g)) = Some og ->
  ignore_ops_files re_ignore kw_ignore B = Some ob ->
  in_span g q ->
  let glob := fun ops : list op => match exclude_checks cfg with [] => ops | cs => OpGlobal cs :: ops end in
  x_ignore_ops cfg p = Some (glob (oa ++ og ++ ob)%list) /\
  x_suppressed (glob (oa ++ og ++ ob)%list) c q = x_suppressed (glob og) c q.
Proof.
  intros Hr Hp Hk Ha Hg Hb Hq glob. unfold x_ranges_ok in Hr. apply andb_true_iff in Hr. destruct Hr as [Hr Hd]. unfold x_pos_ok in Hp. rewrite Hk in Hr, Hd, Hp.
  split.
  - unfold x_ignore_ops, ignore_ops. change (filter (fun f0 => negb (should_skip cfg (f_name f0))) (p_files p)) with (kept_files cfg p). rewrite Hk.
    assert (App : forall l1 l2, ignore_ops_files re_ignore kw_ignore (l1 ++ l2) =
                                match ignore_ops_files re_ignore kw_ignore l1, ignore_ops_files re_ignore kw_ignore l2 with
                                | Some a, Some b => Some (a ++ b)%list | _, _ => None end).
    { induction l1 as [|x r IH]; intros l2; cbn [app ignore_ops_files].
      - destruct (ignore_ops_files re_ignore kw_ignore l2); reflexivity.
      - rewrite IH. destruct (ignore_ops_comments re_ignore kw_ignore x (List.concat (f_comments x))) as [a|]; [|reflexivity].
        destruct (ignore_ops_files re_ignore kw_ignore r) as [b|]; [|reflexivity].
        destruct (ignore_ops_files re_ignore kw_ignore l2) as [c0|]; [rewrite app_assoc; reflexivity|reflexivity]. }
    rewrite App. cbn [ignore_ops_files]. rewrite Ha, Hg, Hb. reflexivity.
  - apply (suppression_is_file_local cfg A B g oa og ob c q Hr Hp (pairwise_disj_split A g B Hd) Ha Hg Hb Hq).
Qed.

Lemma ops_files_split A g B o :
  ignore_ops_files re_ignore kw_ignore (A ++ g :: B) = Some o ->
  exists oa og ob, ignore_ops_files re_ignore kw_ignore A = Some oa /\
                   ignore_ops_comments re_ignore kw_ignore g (List.concat (f_comments g)) = Some og /\
                   ignore_ops_files re_ignore kw_ignore B = Some ob /\ o = (oa ++ og ++ ob)%list.
Proof.
  revert o. induction A as [|a r IH]; intros o; cbn [app ignore_ops_files].
  - destruct (ignore_ops_comments re_ignore kw_ignore g (List.concat (f_comments g))) as [og|]; [|discriminate].
    destruct (ignore_ops_files re_ignore kw_ignore B) as [ob|]; [|discriminate]. intros H. injection H as <-.
    exists [], og, ob. repeat split.
  - destruct (ignore_ops_comments re_ignore kw_ignore a (List.concat (f_comments a))) as [oa0|]; [|discriminate].
    destruct (ignore_ops_files re_ignore kw_ignore (r ++ g :: B)) as [o'|] eqn:E; [|discriminate]. intros H. injection H as <-.
    destruct (IH o' eq_refl) as (oa & og & ob & Ha & Hg & Hb & ->). rewrite Ha.
    exists (oa0 ++ oa)%list, og, ob. repeat split; [exact Hg|exact Hb|rewrite app_assoc; reflexivity].
Qed.

(* a position inside the range of a kept file g: the package's suppression there is g's own *)
Theorem decided_by_own_file cfg p g ops q :
  x_ranges_ok cfg p = true -> x_pos_ok cfg p = true -> x_ignore_ops cfg p = Some ops -> In g (kept_files cfg p) -> in_span g q ->
  exists og, ignore_ops_comments re_ignore kw_ignore g (List.concat (f_comments g)) = Some og /\
    forall c, x_suppressed ops c q =
              x_suppressed (match exclude_checks cfg with [] => og | cs => OpGlobal cs :: og end) c q.
Proof.
  intros Hr Hp Ho Hg Hq. destruct (in_split g (kept_files cfg p) Hg) as (A & B & Hk).
  assert (Ho' := Ho). unfold x_ignore_ops, ignore_ops in Ho'.
  change (filter (fun f0 => negb (should_skip cfg (f_name f0))) (p_files p)) with (kept_files cfg p) in Ho'. rewrite Hk in Ho'.
  destruct (ignore_ops_files re_ignore kw_ignore (A ++ g :: B)) as [o|] eqn:E; [|discriminate].
  destruct (ops_files_split A g B o E) as (oa & og & ob & Ha & Hgg & Hb & ->). exists og. split; [exact Hgg|].
  intros c. injection Ho' as <-.
  destruct (package_suppression_is_file_local cfg p A g B oa og ob c q Hr Hp Hk Ha Hgg Hb Hq) as [_ H]. exact H.
Qed.
