(* C07: the scope of an @ignore comment.  The stateful, pruned ast.Inspect of findNextNodeAfterComment settles on
   the FIRST node (in source = pre-order) that starts after the comment; findInlineNode's pruned walk finds code on
   the comment's line. *)
From Coq Require Import List String ZArith Bool Lia Sorted.
From GG Require Import Base.Strs Model.GoAst Model.IgnoreSet Model.Analyze.
Import ListNotations.
Local Open Scope Z_scope.

Definition st := option (Z * Z).

Definition visit_list (c : Z) (cs : list node) (s : st) : st := fold_left (fun b ch => next_visit c ch b) cs s.

Lemma next_visit_unfold c k p e a cs s :
  next_visit c (Node k p e a cs) s =
  if p <=? c then visit_list c cs s
  else match s with
       | None => Some (p, e)
       | Some (bp, _) => if p <? bp then Some (p, e) else visit_list c cs s
       end.
Proof.
  cbn [next_visit].
  assert (E : forall l b, (fix go (l : list node) (b : option (Z * Z)) : option (Z * Z) :=
                            match l with [] => b | c0 :: r => go r (next_visit c c0 b) end) l b = visit_list c l b).
  { induction l as [|x r IH]; intros b; [reflexivity|]. cbn [visit_list fold_left]. rewrite IH. reflexivity. }
  rewrite !E. reflexivity.
Qed.

(* the nodes that start after the comment, in walk order *)
Definition after (c : Z) (l : list node) : list node := filter (fun n => c <? n_pos n) l.

Definition first_after (c : Z) (l : list node) : st :=
  match after c l with n :: _ => Some (n_pos n, n_end n) | [] => None end.

Lemma after_app c l1 l2 : after c (l1 ++ l2) = (after c l1 ++ after c l2)%list.
Proof. apply filter_app. Qed.

(* nodes that may still be visited: they start at or before c, or at or after p *)
Definition harmless (c p : Z) (l : list node) : Prop := Forall (fun n => n_pos n <= c \/ p <= n_pos n) l.

Lemma visit_keep c n : forall p e, harmless c p (preorder n) -> next_visit c n (Some (p, e)) = Some (p, e).
Proof.
  induction n as [k q qe a cs IH] using node_ind'. intros p e Hh.
  rewrite next_visit_unfold. rewrite preorder_unfold in Hh. cbn [n_children] in Hh.
  inversion Hh as [|? ? Hq Hrest]; subst. cbn [n_pos] in Hq.
  assert (Hfold : visit_list c cs (Some (p, e)) = Some (p, e)).
  { clear Hq Hh. unfold preorder_list in Hrest. induction cs as [|x r IHr]; [reflexivity|].
    cbn [visit_list fold_left]. inversion IH as [|? ? Hx Hr]; subst.
    cbn [flat_map] in Hrest. apply Forall_app in Hrest. destruct Hrest as [H1 H2].
    rewrite (Hx p e H1). apply IHr; assumption. }
  destruct (q <=? c) eqn:E1; [exact Hfold|].
  destruct (q <? p) eqn:E2; [|exact Hfold].
  apply Z.leb_gt in E1. apply Z.ltb_lt in E2. lia.
Qed.

Lemma visit_list_keep c cs : forall p e, harmless c p (preorder_list cs) -> visit_list c cs (Some (p, e)) = Some (p, e).
Proof.
  unfold preorder_list. induction cs as [|x r IH]; intros p e H; [reflexivity|].
  cbn [visit_list fold_left]. cbn [flat_map] in H. apply Forall_app in H. destruct H as [H1 H2].
  rewrite visit_keep by exact H1. apply IH; exact H2.
Qed.

Definition sorted_pos (l : list node) : Prop := StronglySorted (fun a b => n_pos a <= n_pos b) l.

Lemma sorted_app_l l1 l2 : sorted_pos (l1 ++ l2) -> sorted_pos l1.
Proof.
  induction l1 as [|a l1 IH]; intros H; [constructor|].
  inversion H as [|? ? Hs Hf]; subst. constructor; [apply IH; exact Hs|]. apply Forall_app in Hf. tauto.
Qed.
Lemma sorted_app_r l1 l2 : sorted_pos (l1 ++ l2) -> sorted_pos l2.
Proof. induction l1 as [|a l1 IH]; intros H; [exact H|]. inversion H; subst. apply IH; assumption. Qed.
Lemma sorted_app_le l1 l2 a b : sorted_pos (l1 ++ l2) -> In a l1 -> In b l2 -> n_pos a <= n_pos b.
Proof.
  induction l1 as [|x l1 IH]; intros H Ha Hb; [destruct Ha|].
  inversion H as [|? ? Hs Hf]; subst. destruct Ha as [->|Ha].
  - rewrite Forall_forall in Hf. apply Hf. apply in_or_app; right; exact Hb.
  - apply IH; assumption.
Qed.

Lemma visit_list_none_from c cs :
  Forall (fun n => sorted_pos (after c (preorder n)) -> next_visit c n None = first_after c (preorder n)) cs ->
  sorted_pos (after c (preorder_list cs)) -> visit_list c cs None = first_after c (preorder_list cs).
Proof.
  unfold preorder_list. induction cs as [|x r IHr]; intros HF Hs; [reflexivity|].
  inversion HF as [|? ? Hx Hr]; subst.
  cbn [visit_list fold_left flat_map]. cbn [flat_map] in Hs. rewrite after_app in Hs.
  rewrite Hx by (eapply sorted_app_l; exact Hs).
  unfold first_after at 2. rewrite after_app. unfold first_after at 1.
  destruct (after c (preorder x)) as [|y ys] eqn:Ea.
  - cbn [app]. apply IHr; [exact Hr|]. exact Hs.
  - cbn [app]. change (fold_left (fun b ch => next_visit c ch b) r (Some (n_pos y, n_end y))) with (visit_list c r (Some (n_pos y, n_end y))).
    apply visit_list_keep. apply Forall_forall. intros b Hb.
    destruct (c <? n_pos b) eqn:Eb; [|left; apply Z.ltb_ge; exact Eb].
    right. apply (sorted_app_le (y :: ys) (after c (flat_map preorder r)) y b Hs); [left; reflexivity|].
    apply filter_In. split; [exact Hb|exact Eb].
Qed.

(* the stateful pruned walk = the first node in source order that starts after the comment,
   provided the nodes that start after the comment come in non-decreasing position order *)
Theorem next_visit_is_first_after c n :
  sorted_pos (after c (preorder n)) -> next_visit c n None = first_after c (preorder n).
Proof.
  induction n as [k q qe a cs IH] using node_ind'. intros Hs.
  rewrite next_visit_unfold. rewrite preorder_unfold in *. cbn [n_children] in *.
  unfold first_after, after. cbn [filter n_pos].
  destruct (q <=? c) eqn:Hq.
  - assert (E : (c <? q) = false) by (apply Z.ltb_ge; apply Z.leb_le in Hq; lia). rewrite E.
    unfold after in Hs. cbn [filter n_pos] in Hs. rewrite E in Hs.
    apply (visit_list_none_from c cs IH). exact Hs.
  - assert (E : (c <? q) = true) by (apply Z.ltb_lt; apply Z.leb_gt in Hq; lia). rewrite E. reflexivity.
Qed.

(* boolean form of the hypothesis, evaluated by the harness on every tree and comment *)
Fixpoint sorted_b (l : list Z) : bool :=
  match l with
  | a :: ((b :: _) as r) => (a <=? b) && sorted_b r
  | _ => true
  end.
Definition after_sorted_b (c : Z) (n : node) : bool := sorted_b (map n_pos (after c (preorder n))).

Lemma sorted_b_sound l : sorted_b (map n_pos l) = true -> sorted_pos l.
Proof.
  induction l as [|a l IH]; intros H; [constructor|].
  destruct l as [|b l'].
  - constructor; constructor.
  - cbn [map sorted_b] in H. apply andb_true_iff in H. destruct H as [H1 H2]. apply Z.leb_le in H1.
    specialize (IH H2). constructor; [exact IH|].
    inversion IH as [|? ? Hs Hf]; subst. constructor; [exact H1|].
    rewrite Forall_forall in *. intros x Hx. specialize (Hf x Hx). lia.
Qed.

Corollary next_visit_first_after_b c n :
  after_sorted_b c n = true -> next_visit c n None = first_after c (preorder n).
Proof. intros H. apply next_visit_is_first_after. apply sorted_b_sound. exact H. Qed.

(* ---------- inline detection ---------- *)
(* soundness: "code on the line" means a node that starts before the comment and ends on the comment's line *)
Theorem has_code_on_line_sound f cpos cline n :
  has_code_on_line f cpos cline n = true ->
  exists x, In x (preorder n) /\ n_pos x < cpos /\ (line_of f (n_pos x) = cline \/ line_of f (n_end x) = cline).
Proof.
  induction n as [k p e a cs IH] using node_ind'. cbn [has_code_on_line].
  destruct (p >=? cpos) eqn:E1; [discriminate|].
  assert (Hp : p < cpos) by lia.
  destruct ((line_of f p =? cline) || (line_of f e =? cline)) eqn:E2.
  - intros _. exists (Node k p e a cs). split; [rewrite preorder_unfold; left; reflexivity|].
    cbn [n_pos n_end]. split; [exact Hp|]. apply orb_true_iff in E2. destruct E2 as [E2|E2]; [left|right]; apply Z.eqb_eq; exact E2.
  - intros H. rewrite Forall_forall in IH.
    assert (Hex : exists c, In c cs /\ has_code_on_line f cpos cline c = true).
    { clear -H. induction cs as [|c r IHr]; [discriminate|].
      apply orb_true_iff in H. destruct H as [H|H]; [exists c; split; [left; reflexivity|exact H]|].
      destruct (IHr H) as [c' [H1 H2]]. exists c'. split; [right; exact H1|exact H2]. }
    destruct Hex as [c [Hc Hh]]. destruct (IH c Hc Hh) as [x [Hx Hr]].
    exists x. split; [|exact Hr]. rewrite preorder_unfold. right. cbn [n_children]. unfold preorder_list.
    apply in_flat_map. exists c. split; assumption.
Qed.

(* completeness, when no node starts before its parent (the walk is not cut off above such a node) *)
Fixpoint parent_le_b (n : node) : bool :=
  let 'Node _ p _ _ cs := n in
  (fix go (l : list node) : bool := match l with [] => true | c :: r => (p <=? n_pos c) && parent_le_b c && go r end) cs.

Theorem has_code_on_line_complete f cpos cline n :
  parent_le_b n = true ->
  (exists x, In x (preorder n) /\ n_pos x < cpos /\ (line_of f (n_pos x) = cline \/ line_of f (n_end x) = cline)) ->
  has_code_on_line f cpos cline n = true.
Proof.
  induction n as [k p e a cs IH] using node_ind'. intros Hw [x [Hx [Hp Hl]]].
  cbn [has_code_on_line]. rewrite preorder_unfold in Hx. cbn [n_children] in Hx.
  cbn [parent_le_b] in Hw.
  assert (Hcs : forall c, In c cs -> p <= n_pos c /\ parent_le_b c = true).
  { clear -Hw. induction cs as [|c r IHr]; intros c0 Hc0; [contradiction|].
    apply andb_true_iff in Hw. destruct Hw as [Hw Hr]. apply andb_true_iff in Hw. destruct Hw as [H1 H2].
    destruct Hc0 as [<-|Hc0]; [split; [apply Z.leb_le; exact H1|exact H2]|apply IHr; assumption]. }
  destruct Hx as [<-|Hx].
  - cbn [n_pos n_end] in *. replace (p >=? cpos) with false by lia.
    destruct Hl as [Hl|Hl]; [replace (line_of f p =? cline) with true by lia; reflexivity|].
    replace (line_of f e =? cline) with true by lia. rewrite orb_true_r. reflexivity.
  - unfold preorder_list in Hx. apply in_flat_map in Hx. destruct Hx as [c [Hc Hx]].
    destruct (Hcs c Hc) as [Hle Hwc].
    (* x lies below c: c starts no later than x (parent_le down the path), so p <= pos c <= pos x < cpos *)
    assert (Hdesc : forall m y, parent_le_b m = true -> In y (preorder m) -> n_pos m <= n_pos y).
    { clear. induction m as [k p e a cs IHm] using node_ind'. intros y Hw Hy.
      rewrite preorder_unfold in Hy. cbn [n_children] in Hy. destruct Hy as [<-|Hy]; [lia|].
      cbn [parent_le_b] in Hw. unfold preorder_list in Hy. apply in_flat_map in Hy. destruct Hy as [c [Hc Hy]].
      rewrite Forall_forall in IHm. cbn [n_pos].
      assert (Hcc : p <= n_pos c /\ parent_le_b c = true).
      { clear -Hw Hc. induction cs as [|c0 r IHr]; [contradiction|].
        apply andb_true_iff in Hw. destruct Hw as [Hw Hr]. apply andb_true_iff in Hw. destruct Hw as [H1 H2].
        destruct Hc as [<-|Hc]; [split; [apply Z.leb_le; exact H1|exact H2]|apply IHr; assumption]. }
      destruct Hcc as [H1 H2]. specialize (IHm c Hc y H2 Hy). lia. }
    pose proof (Hdesc c x Hwc Hx) as Hcx.
    replace (p >=? cpos) with false by lia.
    destruct ((line_of f p =? cline) || (line_of f e =? cline)); [reflexivity|].
    rewrite Forall_forall in IH.
    assert (Hrec : has_code_on_line f cpos cline c = true) by (apply IH; [exact Hc|exact Hwc|exists x; auto]).
    clear -Hc Hrec. induction cs as [|c0 r IHr]; [contradiction|].
    apply orb_true_iff. destruct Hc as [<-|Hc]; [left; exact Hrec|right; apply IHr; exact Hc].
Qed.

(* ---------- the effect of one more scoped suppression: a filter on what was reported ---------- *)
Section OneMore.
Variable sup : string -> Z -> bool.
Variable hit : string -> Z -> bool.              (* the new comment matches the code and its scope contains the position *)
Definition sup1 : string -> Z -> bool := fun c p => hit c p || sup c p.

Theorem one_more_ignore_report_filter ds :
  report_filter sup1 ds = filter (fun d => negb (hit (d_code d) (d_pos d))) (report_filter sup ds).
Proof.
  unfold report_filter, sup1. induction ds as [|d r IH]; simpl; [reflexivity|].
  destruct (hit (d_code d) (d_pos d)) eqn:Eh; simpl.
  - destruct (sup (d_code d) (d_pos d)); simpl; [exact IH|]. rewrite Eh. simpl. exact IH.
  - destruct (sup (d_code d) (d_pos d)); simpl; [exact IH|]. rewrite Eh. simpl. f_equal. exact IH.
Qed.
End OneMore.

(* ---------- sort.Search over the declarations (linear model): the first declaration that ends after the comment ---------- *)
Lemma first_index_ge {A} (p : A -> bool) l k : (k <= first_index p l k)%nat.
Proof. revert k. induction l as [|x r IH]; intros k; simpl; [lia|]. destruct (p x); [lia|]. specialize (IH (S k)). lia. Qed.

Lemma nth_first_index_gen {A} (p : A -> bool) l : forall k, nth_error l (first_index p l k - k) = find p l.
Proof.
  induction l as [|x r IH]; intros k; simpl.
  - destruct (k - k)%nat; reflexivity.
  - destruct (p x) eqn:E.
    + rewrite Nat.sub_diag. reflexivity.
    + pose proof (first_index_ge p r (S k)) as Hge.
      replace (first_index p r (S k) - k)%nat with (S (first_index p r (S k) - S k)) by lia.
      simpl. apply IH.
Qed.

Lemma nth_first_index {A} (p : A -> bool) l : nth_error l (first_index p l 0) = find p l.
Proof. rewrite <- (nth_first_index_gen p l 0). rewrite Nat.sub_0_r. reflexivity. Qed.

Theorem find_next_end_spec f cpos :
  find_next_end f cpos =
  match find (fun d => n_end d >? cpos) (f_decls f) with
  | None => 0
  | Some d => if cpos <? n_pos d then n_end d
              else match next_visit cpos d None with Some (_, e) => e | None => 0 end
  end.
Proof. unfold find_next_end. rewrite nth_first_index. reflexivity. Qed.

(* ---------- the four scopes, composed ---------- *)
Section Scopes.
Variable f : file.
Variable c : comment.

Definition enclosing : option node := find (fun d => n_end d >? c_pos c) (f_decls f).
Definition prev_ends_on_line : bool :=
  match first_index (fun d => n_end d >? c_pos c) (f_decls f) 0 with
  | O => false
  | S j => match nth_error (f_decls f) j with Some d => line_of f (n_end d) =? line_of f (c_pos c) | None => false end
  end.

(* (a) before the package clause: the whole file *)
Lemma scope_file_level : c_pos c < f_package f -> comment_scope f c = Some (c_pos c, f_end f).
Proof. intros H. unfold comment_scope. apply Z.ltb_lt in H. rewrite H. reflexivity. Qed.

(* (b) standing alone before a top-level declaration d (no declaration ends on its line): from the comment to the end of d *)
Lemma scope_before_decl d :
  f_package f <= c_pos c -> prev_ends_on_line = false -> enclosing = Some d -> c_pos c < n_pos d -> 0 < n_end d ->
  comment_scope f c = Some (c_pos c, n_end d).
Proof.
  intros Hp Hprev Hd Hlt Hend. unfold comment_scope. replace (c_pos c <? f_package f) with false by (symmetry; apply Z.ltb_ge; exact Hp).
  unfold find_inline. fold prev_ends_on_line. rewrite Hprev. rewrite nth_first_index. fold enclosing. rewrite Hd.
  replace (c_pos c <? n_pos d) with true by (symmetry; apply Z.ltb_lt; exact Hlt).
  rewrite find_next_end_spec. fold enclosing. rewrite Hd.
  replace (c_pos c <? n_pos d) with true by (symmetry; apply Z.ltb_lt; exact Hlt).
  replace (n_end d =? 0) with false by (symmetry; apply Z.eqb_neq; lia). reflexivity.
Qed.

(* (c) inside a declaration d with code on its line before it: its own source line *)
Lemma scope_inline d ls :
  f_package f <= c_pos c -> prev_ends_on_line = false -> enclosing = Some d -> n_pos d <= c_pos c ->
  has_code_on_line f (c_pos c) (line_of f (c_pos c)) d = true -> line_start f (line_of f (c_pos c)) = Some ls ->
  comment_scope f c = Some (ls, c_end c).
Proof.
  intros Hp Hprev Hd Hge Hcode Hls. unfold comment_scope. replace (c_pos c <? f_package f) with false by (symmetry; apply Z.ltb_ge; exact Hp).
  unfold find_inline. fold prev_ends_on_line. rewrite Hprev. rewrite nth_first_index. fold enclosing. rewrite Hd.
  replace (c_pos c <? n_pos d) with false by (symmetry; apply Z.ltb_ge; exact Hge). rewrite Hcode, Hls. reflexivity.
Qed.

(* (c') trailing the last token of a top-level declaration: its own source line as well *)
Lemma scope_trailing_decl ls :
  f_package f <= c_pos c -> prev_ends_on_line = true -> line_start f (line_of f (c_pos c)) = Some ls ->
  comment_scope f c = Some (ls, c_end c).
Proof.
  intros Hp Hprev Hls. unfold comment_scope. replace (c_pos c <? f_package f) with false by (symmetry; apply Z.ltb_ge; exact Hp).
  unfold find_inline. fold prev_ends_on_line. rewrite Hprev, Hls. reflexivity.
Qed.

(* (d) standing alone inside a declaration d: from the comment to the end of the FIRST node of d, in source order, that
   starts after it - the whole following statement when the comment stands before a statement *)
Lemma scope_inside_body d x rest :
  f_package f <= c_pos c -> prev_ends_on_line = false -> enclosing = Some d -> n_pos d <= c_pos c ->
  has_code_on_line f (c_pos c) (line_of f (c_pos c)) d = false ->
  after_sorted_b (c_pos c) d = true -> after (c_pos c) (preorder d) = x :: rest -> 0 < n_end x ->
  comment_scope f c = Some (c_pos c, n_end x).
Proof.
  intros Hp Hprev Hd Hge Hcode Hsorted Hafter Hend. unfold comment_scope.
  replace (c_pos c <? f_package f) with false by (symmetry; apply Z.ltb_ge; exact Hp).
  unfold find_inline. fold prev_ends_on_line. rewrite Hprev. rewrite nth_first_index. fold enclosing. rewrite Hd.
  replace (c_pos c <? n_pos d) with false by (symmetry; apply Z.ltb_ge; exact Hge). rewrite Hcode.
  rewrite find_next_end_spec. fold enclosing. rewrite Hd.
  replace (c_pos c <? n_pos d) with false by (symmetry; apply Z.ltb_ge; exact Hge).
  rewrite (next_visit_first_after_b (c_pos c) d Hsorted). unfold first_after. rewrite Hafter.
  replace (n_end x =? 0) with false by (symmetry; apply Z.eqb_neq; lia). reflexivity.
Qed.
End Scopes.
