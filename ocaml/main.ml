(* modelrun: line-oriented driver around the extracted Coq model. *)
open Model

let rec pos_of_int (n : int) : positive =
  if n = 1 then XH else if n land 1 = 0 then XO (pos_of_int (n lsr 1)) else XI (pos_of_int (n lsr 1))
let z_of_int (n : int) : z = if n = 0 then Z0 else if n > 0 then Zpos (pos_of_int n) else Zneg (pos_of_int (-n))
let rec int_of_pos = function XH -> 1 | XO p -> 2 * int_of_pos p | XI p -> 2 * int_of_pos p + 1
let int_of_z = function Z0 -> 0 | Zpos p -> int_of_pos p | Zneg p -> - (int_of_pos p)
let rec nat_of_int n = if n <= 0 then O else S (nat_of_int (n - 1))
let rec int_of_nat = function O -> 0 | S n -> 1 + int_of_nat n

let chars_of_string (s : string) : char list = List.init (String.length s) (String.get s)
let string_of_chars (l : char list) : string = String.of_seq (List.to_seq l)

let split_on c s = String.split_on_char c s
let fields s = List.filter (fun x -> x <> "") (split_on ' ' s)
let split_codes s = if s = "" then [] else List.map chars_of_string (split_on ',' s)

(* ---------------- ignoreset ---------------- *)
let run_ignoreset () =
  try
    while true do
      let line = input_line stdin in
      match String.index_opt line '|' with
      | None -> print_endline "E"
      | Some i ->
        let ops_s = String.sub line 0 i and qs_s = String.sub line (i + 1) (String.length line - i - 1) in
        let ops = fields ops_s in
        let buf = Buffer.create 64 in
        let buf2 = Buffer.create 64 in
        let is_nil = (ops = ["N"]) in
        let mops = if is_nil then [] else List.map (fun o ->
            match split_on ':' o with
            | ["A"; cs; s; e] -> OpAdd (split_codes cs, z_of_int (int_of_string s), z_of_int (int_of_string e))
            | ["G"; cs] -> OpGlobal (split_codes cs)
            | _ -> failwith ("bad op " ^ o)) ops in
        let st = x_is_run mops in
        List.iter (fun q ->
            let j = String.rindex q ':' in
            let code = chars_of_string (String.sub q 0 j) in
            let p = z_of_int (int_of_string (String.sub q (j + 1) (String.length q - j - 1))) in
            let r = if is_nil then Ok false else x_is_contains st code p in
            Buffer.add_char buf (match r with Ok true -> '1' | Ok false -> '0' | Panic -> 'P');
            Buffer.add_char buf2 (if x_is_spec mops code p then '1' else '0')) (fields qs_s);
        print_endline (Buffer.contents buf ^ " " ^ Buffer.contents buf2)
    done
  with End_of_file -> ()

(* ---------------- reporter ---------------- *)
let hex_decode (h : string) : string =
  if h = "." then "" else
  String.init (String.length h / 2) (fun i -> Char.chr (int_of_string ("0x" ^ String.sub h (2 * i) 2)))
let hex_encode (s : string) : string =
  let b = Buffer.create (2 * String.length s) in
  String.iter (fun c -> Buffer.add_string b (Printf.sprintf "%02x" (Char.code c))) s; Buffer.contents b

let run_reporter () =
  try
    while true do
      let line = input_line stdin in
      match fields line with
      | [c; l; col; code; msg] ->
        let content = if c = "-" then None else Some (chars_of_string (hex_decode c)) in
        (match x_rep_format content (z_of_int (int_of_string l)) (z_of_int (int_of_string col))
                 (chars_of_string code) (chars_of_string (hex_decode msg)) with
         | Msg m -> print_endline ("M " ^ hex_encode (string_of_chars m))
         | PanicSlice -> print_endline "P")
      | _ -> print_endline "E"
    done
  with End_of_file -> ()

(* ---------------- config ---------------- *)
let hex_list (l : char list list) : string =
  String.concat "," (List.map (fun x -> let s = string_of_chars x in if s = "" then "." else hex_encode s) l)

let run_config () =
  try
    while true do
      let line = input_line stdin in
      let env = ref [] and flags = ref [] in
      List.iter (fun tok ->
          let body = String.sub tok 2 (String.length tok - 2) in
          match tok.[0] with
          | 'E' -> let i = String.index body '=' in
            let k = String.sub body 0 i and v = hex_decode (String.sub body (i + 1) (String.length body - i - 1)) in
            (* os.Setenv: a later assignment of the same name replaces the earlier one *)
            env := (chars_of_string k, chars_of_string v) :: List.filter (fun (k', _) -> k' <> chars_of_string k) !env
          | 'F' -> let i = String.index body '=' in
            let k = String.sub body 0 i and v = hex_decode (String.sub body (i + 1) (String.length body - i - 1)) in
            flags := !flags @ [(chars_of_string k, Some (chars_of_string v))]
          | 'B' -> flags := !flags @ [(chars_of_string body, None)]
          | _ -> ()) (fields line);
      (match x_cfg_resolve !flags !env with
       | FlagError -> print_endline "FLAGERR"
       | CfgOk c -> print_endline (Printf.sprintf "S=%d P=%s C=%s" (if c.scan_tests then 1 else 0)
                                     (hex_list c.exclude_paths) (hex_list c.exclude_checks)))
    done
  with End_of_file -> ()

let () =
  match Array.to_list Sys.argv with
  | _ :: "ignoreset" :: _ -> run_ignoreset ()
  | _ :: "config" :: _ -> run_config ()
  | _ :: "reporter" :: _ -> run_reporter ()
  | _ -> prerr_endline "usage: modelrun <suite>"; exit 2
