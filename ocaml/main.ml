(* modelrun: line-oriented driver around the extracted Coq model. *)
open Model

let rec pos_of_int (n : int) : positive =
  if n = 1 then XH else if n land 1 = 0 then XO (pos_of_int (n lsr 1)) else XI (pos_of_int (n lsr 1))
let z_of_int (n : int) : z = if n = 0 then Z0 else if n > 0 then Zpos (pos_of_int n) else Zneg (pos_of_int (-n))
let rec int_of_pos = function XH -> 1 | XO p -> 2 * int_of_pos p | XI p -> 2 * int_of_pos p + 1
let int_of_z = function Z0 -> 0 | Zpos p -> int_of_pos p | Zneg p -> - (int_of_pos p)
let rec nat_of_int n = if n <= 0 then O else S (nat_of_int (n - 1))
let rec int_of_nat = function O -> 0 | S n -> 1 + int_of_nat n

let chars_of_string (s : string) : char list = List.init (String.length s) (String.get s)
let string_of_chars (l : char list) : string = String.of_seq (List.to_seq l)

let split_on c s = String.split_on_char c s
let fields s = List.filter (fun x -> x <> "") (split_on ' ' s)
let split_codes s = if s = "" then [] else List.map chars_of_string (split_on ',' s)

(* ---------------- ignoreset ---------------- *)
let run_ignoreset () =
  try
    while true do
      let line = input_line stdin in
      match String.index_opt line '|' with
      | None -> print_endline "E"
      | Some i ->
        let ops_s = String.sub line 0 i and qs_s = String.sub line (i + 1) (String.length line - i - 1) in
        let ops = fields ops_s in
        let buf = Buffer.create 64 in
        let buf2 = Buffer.create 64 in
        let is_nil = (ops = ["N"]) in
        let mops = if is_nil then [] else List.map (fun o ->
            match split_on ':' o with
            | ["A"; cs; s; e] -> OpAdd (split_codes cs, z_of_int (int_of_string s), z_of_int (int_of_string e))
            | ["G"; cs] -> OpGlobal (split_codes cs)
            | _ -> failwith ("bad op " ^ o)) ops in
        let st = x_is_run mops in
        List.iter (fun q ->
            let j = String.rindex q ':' in
            let code = chars_of_string (String.sub q 0 j) in
            let p = z_of_int (int_of_string (String.sub q (j + 1) (String.length q - j - 1))) in
            let r = if is_nil then Ok false else x_is_contains st code p in
            Buffer.add_char buf (match r with Ok true -> '1' | Ok false -> '0' | Panic -> 'P');
            Buffer.add_char buf2 (if x_is_spec mops code p then '1' else '0')) (fields qs_s);
        print_endline (Buffer.contents buf ^ " " ^ Buffer.contents buf2)
    done
  with End_of_file -> ()

(* ---------------- reporter ---------------- *)
let hex_decode (h : string) : string =
  if h = "." then "" else
  String.init (String.length h / 2) (fun i -> Char.chr (int_of_string ("0x" ^ String.sub h (2 * i) 2)))
let hex_encode (s : string) : string =
  let b = Buffer.create (2 * String.length s) in
  String.iter (fun c -> Buffer.add_string b (Printf.sprintf "%02x" (Char.code c))) s; Buffer.contents b

let run_reporter () =
  try
    while true do
      let line = input_line stdin in
      match fields line with
      | [c; l; col; code; msg] ->
        let content = if c = "-" then None else Some (chars_of_string (hex_decode c)) in
        (match x_rep_format content (z_of_int (int_of_string l)) (z_of_int (int_of_string col))
                 (chars_of_string code) (chars_of_string (hex_decode msg)) with
         | Msg m -> print_endline ("M " ^ hex_encode (string_of_chars m))
         | PanicSlice -> print_endline "P")
      | _ -> print_endline "E"
    done
  with End_of_file -> ()

(* ---------------- config ---------------- *)
let hex_list (l : char list list) : string =
  String.concat "," (List.map (fun x -> let s = string_of_chars x in if s = "" then "." else hex_encode s) l)

let run_config () =
  try
    while true do
      let line = input_line stdin in
      let env = ref [] and flags = ref [] in
      List.iter (fun tok ->
          let body = String.sub tok 2 (String.length tok - 2) in
          match tok.[0] with
          | 'E' -> let i = String.index body '=' in
            let k = String.sub body 0 i and v = hex_decode (String.sub body (i + 1) (String.length body - i - 1)) in
            (* os.Setenv: a later assignment of the same name replaces the earlier one *)
            env := (chars_of_string k, chars_of_string v) :: List.filter (fun (k', _) -> k' <> chars_of_string k) !env
          | 'F' -> let i = String.index body '=' in
            let k = String.sub body 0 i and v = hex_decode (String.sub body (i + 1) (String.length body - i - 1)) in
            flags := !flags @ [(chars_of_string k, Some (chars_of_string v))]
          | 'B' -> flags := !flags @ [(chars_of_string body, None)]
          | _ -> ()) (fields line);
      (match x_cfg_resolve !flags !env with
       | FlagError -> print_endline "FLAGERR"
       | CfgOk c -> print_endline (Printf.sprintf "S=%d P=%s C=%s" (if c.scan_tests then 1 else 0)
                                     (hex_list c.exclude_paths) (hex_list c.exclude_checks)))
    done
  with End_of_file -> ()

(* ---------------- s-expressions (the dump written by ggx skel) ---------------- *)
type sexp = A of string | Q of string | L of sexp list

let parse_sexps (src : string) : sexp list =
  let n = String.length src in
  let pos = ref 0 in
  let rec skip () = if !pos < n && (src.[!pos] = ' ' || src.[!pos] = '\n' || src.[!pos] = '\t' || src.[!pos] = '\r') then (incr pos; skip ()) in
  let hexv c = match c with '0'..'9' -> Char.code c - 48 | 'a'..'f' -> Char.code c - 87 | 'A'..'F' -> Char.code c - 55 | _ -> 0 in
  let rec one () : sexp =
    skip ();
    if !pos >= n then failwith "sexp: eof" else
    match src.[!pos] with
    | '(' -> incr pos; let items = ref [] in
      let rec loop () = skip (); if !pos >= n then failwith "sexp: unclosed" else if src.[!pos] = ')' then incr pos else (items := one () :: !items; loop ()) in
      loop (); L (List.rev !items)
    | '"' -> incr pos; let b = Buffer.create 16 in
      let rec loop () =
        if !pos >= n then failwith "sexp: unclosed string" else
        match src.[!pos] with
        | '"' -> incr pos
        | '\\' -> Buffer.add_char b (Char.chr (16 * hexv src.[!pos + 1] + hexv src.[!pos + 2])); pos := !pos + 3; loop ()
        | c -> Buffer.add_char b c; incr pos; loop () in
      loop (); Q (Buffer.contents b)
    | _ -> let st = !pos in
      while !pos < n && (match src.[!pos] with ' ' | '\n' | '\t' | '\r' | '(' | ')' -> false | _ -> true) do incr pos done;
      A (String.sub src st (!pos - st)) in
  let res = ref [] in
  let rec top () = skip (); if !pos < n then (res := one () :: !res; top ()) in
  top (); List.rev !res

(* the same, one top-level form at a time: a package is converted, analysed and dropped before the next one is parsed *)
let iter_sexps (src : string) (f : sexp -> unit) : unit =
  let n = String.length src in
  let pos = ref 0 in
  let depth = ref 0 and start = ref (-1) and instr = ref false in
  while !pos < n do
    let ch = src.[!pos] in
    if !instr then begin
      if ch = '\\' then pos := !pos + 2
      else if ch = '"' then instr := false
    end else begin
      if ch = '"' then instr := true
      else if ch = '(' then (if !depth = 0 then start := !pos; incr depth)
      else if ch = ')' then begin
        decr depth;
        if !depth = 0 && !start >= 0 then begin
          (match parse_sexps (String.sub src !start (!pos - !start + 1)) with x :: _ -> f x | [] -> ());
          start := -1
        end
      end
    end;
    incr pos
  done

let cs = chars_of_string
let atom_int = function A s -> int_of_string s | _ -> failwith "int expected"
let qstr = function Q s -> s | A "_" -> "" | _ -> failwith "string expected"

let rec conv_ty (x : sexp) : ty option =
  match x with
  | A "_" -> None
  | L [A "N"; pk; Q name] -> Some (TNamed ((match pk with Q p -> Some (cs p) | _ -> None), cs name))
  | L [A "A"; Q name; rhs] -> (match conv_ty rhs with Some r -> Some (TAlias (cs name, r)) | None -> Some (TOther (cs "alias-of-nil")))
  | L [A "P"; e] -> (match conv_ty e with Some r -> Some (TPtr r) | None -> Some (TOther (cs "ptr-of-nil")))
  | L [A "O"; Q d] -> Some (TOther (cs d))
  | _ -> failwith "bad type"

let conv_obj (x : sexp) : obj option =
  match x with
  | A "_" -> None
  | L [A "o"; A kind; id; pk; Q name; ism; recv; isal; oty; Q imported] ->
    Some { o_kind = (match kind with "type" -> OTypeName | "func" -> OFunc | "var" -> OVar | "pkgname" -> OPkgName | _ -> OOtherObj);
           o_id = z_of_int (atom_int id);
           o_pkg = (match pk with Q p -> Some (cs p) | _ -> None);
           o_name = cs name; o_is_method = (atom_int ism = 1); o_recv = conv_ty recv;
           o_is_alias = (atom_int isal = 1); o_type = conv_ty oty; o_imported = cs imported }
  | _ -> failwith "bad obj"

let conv_kind = function
  | "FuncDecl" -> KFuncDecl | "GenDecl" -> KGenDecl | "TypeSpec" -> KTypeSpec | "ValueSpec" -> KValueSpec
  | "StructType" -> KStructType | "FieldList" -> KFieldList | "Field" -> KField | "AssignStmt" -> KAssignStmt
  | "IncDecStmt" -> KIncDecStmt | "SelectorExpr" -> KSelectorExpr | "IndexExpr" -> KIndexExpr | "StarExpr" -> KStarExpr
  | "Ident" -> KIdent | "CompositeLit" -> KCompositeLit | "CallExpr" -> KCallExpr | "CommentGroup" -> KCommentGroup
  | "Comment" -> KComment | _ -> KOther

let rec conv_node (x : sexp) : node =
  match x with
  | L (A "n" :: A kind :: p :: e :: Q name :: Q tok :: n :: m :: fl :: t :: o :: Q str2 :: str3 :: children) ->
    Node (conv_kind kind, z_of_int (atom_int p), z_of_int (atom_int e),
          { a_name = cs name; a_tok = cs tok; a_n = nat_of_int (atom_int n); a_m = nat_of_int (atom_int m);
            a_flag = (atom_int fl = 1); a_ty = conv_ty t; a_obj = conv_obj o; a_str2 = cs str2;
            a_str3 = (match str3 with Q s -> Some (cs s) | _ -> None) },
          List.map conv_node children)
  | _ -> failwith "bad node"

type lfile = { lf : file; lbase : int; llines : int array; lname : string }
type lpkg = { lid : string; lpkg : package; limports : (string * string) list; lfiles : lfile list }

let conv_file (x : sexp) : lfile =
  match x with
  | L [A "file"; Q name; pk; en; base; L (A "lines" :: lines); L (A "imports" :: imps); L (A "comments" :: groups); L (A "decls" :: decls)] ->
    let f = { f_name = cs name; f_package = z_of_int (atom_int pk); f_end = z_of_int (atom_int en);
              f_decls = List.map conv_node decls;
              f_comments = List.map (function L cl -> List.map (function L [Q t; p; e] -> { c_text = cs t; c_pos = z_of_int (atom_int p); c_end = z_of_int (atom_int e) } | _ -> failwith "bad comment") cl | _ -> failwith "bad group") groups;
              f_imports = List.map (function L [Q a; Q p; Q n] -> { i_alias = cs a; i_path = cs p; i_pkgname = cs n } | _ -> failwith "bad import") imps;
              f_lines = List.map (fun l -> z_of_int (atom_int l)) lines } in
    { lf = f; lbase = atom_int base; llines = Array.of_list (List.map atom_int lines); lname = name }
  | _ -> failwith "bad file"

(* rich type terms of method signatures *)
let rec conv_rty (x : sexp) : tyt =
  match x with
  | L [A "B"; Q k; Q n] -> YBasic (cs k, cs n)
  | L [A "N"; A "_"; Q n] -> YNamed (None, cs n)
  | L [A "N"; Q p; Q n] -> YNamed (Some (cs p), cs n)
  | L [A "P"; e] -> YPtr (conv_rty e)
  | L [A "S"; e; Q pr] -> YSlice (conv_rty e, cs pr)
  | L [A "R"; n; e; Q pr] -> YArray (z_of_int (atom_int n), conv_rty e, cs pr)
  | L [A "M"; k; v; Q pr] -> YMap (conv_rty k, conv_rty v, cs pr)
  | L [A "C"; Q d; e; Q pr] -> YChan (cs d, conv_rty e, cs pr)
  | L [A "F"; sg; Q pr] -> let (v, ps, rs) = conv_sig_parts sg in YFunc (ps, rs, v, cs pr)
  | L [A "T"; L fields; Q pr] ->
    let fs = List.map (function L [A "f"; Q n; e; t; Q tag] -> (((cs n, atom_int e = 1), cs tag), conv_rty t) | _ -> failwith "bad field") fields in
    YStruct (List.map fst fs, List.map snd fs, cs pr)
  | L [A "I"; L ms; Q pr] ->
    let l = List.map (function L [A "m"; Q n; t] -> (cs n, conv_rty t) | _ -> failwith "bad iface method") ms in
    YIface (List.map fst l, List.map snd l, cs pr)
  | L [A "A"; Q pr; r] -> YAlias (cs pr, conv_rty r)
  | L [A "O"; Q pr] -> YOpaque (cs pr)
  | _ -> failwith "bad type term"
and conv_sig_parts (x : sexp) : bool * tyt list * tyt list =
  match x with
  | L [A "sig"; v; L ps; L rs] -> (atom_int v = 1, List.map conv_rty ps, List.map conv_rty rs)
  | _ -> failwith "bad sig"

let conv_sig (x : sexp) : sig0 =
  let (v, ps, rs) = conv_sig_parts x in { s_params = ps; s_results = rs; s_variadic = v }

let conv_typetable (items : sexp list) : typetable =
  let ifaces = List.filter_map (function
      | L (A "iface" :: Q p :: Q n :: ms) ->
        Some { id_pkg = cs p; id_name = cs n;
               id_methods = List.map (function L [A "m"; Q mn; sg; Q mp] -> { im_name = cs mn; im_sig = conv_sig sg; im_pkg = cs mp } | _ -> failwith "bad imethod") ms }
      | _ -> None) items in
  let tds = List.filter_map (function
      | L (A "tdecl" :: Q n :: ms) ->
        Some { td_name = cs n;
               td_methods = List.map (function L [A "m"; Q mn; sg; v; Q mp] -> { tm_name = cs mn; tm_sig = conv_sig sg; tm_value = (atom_int v = 1); tm_pkg = cs mp } | _ -> failwith "bad tmethod") ms }
      | _ -> None) items in
  { tt_ifaces = ifaces; tt_types = tds }

let conv_pkg (x : sexp) : lpkg =
  match x with
  | L (A "pkg" :: Q id :: Q path :: Q name :: L (A "imports" :: imps) :: L (A "files" :: files) :: rest) ->
    let imps = List.map (function L [Q p; Q i] -> (p, i) | _ -> failwith "bad pkg import") imps in
    let lfiles = List.map conv_file files in
    let tt = match rest with [L (A "types" :: items)] -> conv_typetable items | _ -> { tt_ifaces = []; tt_types = [] } in
    { lid = id; limports = imps; lfiles;
      lpkg = { p_path = cs path; p_name = cs name; p_files = List.map (fun l -> l.lf) lfiles; p_imports = List.map (fun (p, _) -> cs p) imps; p_types = tt } }
  | _ -> failwith "bad pkg"

let read_file (path : string) : string =
  let ic = open_in_bin path in
  let n = in_channel_length ic in
  let s = really_input_string ic n in
  close_in ic; s

(* position -> (file name, line, column) through the physical line tables *)
let locate (p : lpkg) (pos : int) : string * int * int =
  let best = ref None in
  List.iter (fun f -> if f.lbase <= pos then match !best with Some b when b.lbase >= f.lbase -> () | _ -> best := Some f) p.lfiles;
  match !best with
  | None -> ("?", 0, 0)
  | Some f ->
    let lo = ref 0 and hi = ref (Array.length f.llines - 1) in
    while !lo < !hi do let mid = (!lo + !hi + 1) / 2 in if f.llines.(mid) <= pos then lo := mid else hi := mid - 1 done;
    if Array.length f.llines = 0 then (f.lname, 0, 0) else (f.lname, !lo + 1, pos - f.llines.(!lo) + 1)

let unhex_list (h : string) : char list list =
  if h = "" || h = "-" then [] else List.map (fun x -> cs (hex_decode x)) (split_on ',' h)

let ann_summary (a : annots) : string =
  let s l = String.concat "," (List.map string_of_chars l) in
  let k = function AKType -> "type" | AKFunc -> "func" | AKMethod -> "method" in
  String.concat ";" (
    List.map (fun x -> Printf.sprintf "impl:%s:%s%s.%s:%s:%b" (string_of_chars x.ia_type) (if x.ia_ptr then "&" else "") (string_of_chars x.ia_pkgname) (string_of_chars x.ia_iface) (string_of_chars x.ia_fullpath) x.ia_notfound) a.an_impl @
    List.map (fun x -> Printf.sprintf "ctor:%s:%s" (string_of_chars x.ca_type) (s x.ca_names)) a.an_ctor @
    List.map (fun x -> Printf.sprintf "imm:%s" (string_of_chars x.ima_type)) a.an_imm @
    List.map (fun x -> Printf.sprintf "tonl:%s:%s:%s" (k x.ta_kind) (string_of_chars x.ta_name) (string_of_chars x.ta_recv)) a.an_tonl @
    List.map (fun x -> Printf.sprintf "mut:%s:%s" (string_of_chars x.ma_type) (string_of_chars x.ma_field)) a.an_mut @
    List.map (fun x -> Printf.sprintf "pkgo:%s:%s:%s:%s" (k x.pa_kind) (string_of_chars x.pa_name) (string_of_chars x.pa_recv) (s x.pa_allowed)) a.an_pkgo)

(* analyze <dump> <scan 0|1> <hex paths> <hex checks> *)
let run_analyze (dump : string) (scan : string) (paths : string) (checks : string) =
  let cfg = { scan_tests = (scan = "1"); exclude_paths = unhex_list paths; exclude_checks = unhex_list checks } in
  let facts : (string, annots) Hashtbl.t = Hashtbl.create 64 in
  iter_sexps (read_file dump) (fun sx -> let p = conv_pkg sx in
      let all = List.filter_map (fun (path, id) -> match Hashtbl.find_opt facts id with Some a -> Some (cs path, a) | None -> None) p.limports in
      Printf.printf "W %s %d\n" (hex_encode p.lid) (if x_wf_package p.lpkg then 1 else 0);
      (let (tot, ok) = x_ignore_hyp cfg p.lpkg in Printf.printf "H %d %d\n" (int_of_nat tot) (int_of_nat ok));
      Printf.printf "L %s %d\n" (hex_encode p.lid) (if x_lines_ok cfg p.lpkg && x_pos_ok cfg p.lpkg && x_ranges_ok cfg p.lpkg then 1 else 0);
      Printf.printf "T %s %d\n" (hex_encode p.lid) (if x_impl_inputs_ok p.lpkg then 1 else 0);
      match x_analyze cfg p.lpkg all with
      | APanic site -> Printf.printf "P %s %s\n" p.lid (hex_encode (string_of_chars site))
      | AOk (own, ds) ->
        Hashtbl.replace facts p.lid own;
        Printf.printf "A %s %s\n" (hex_encode p.lid) (hex_encode (ann_summary own));
        List.iter (fun d ->
            let pos = int_of_z d.d_pos in
            let (f, line, col) = locate p pos in
            Printf.printf "D %s %s %d %d %s %s\n" (hex_encode p.lid) (hex_encode f) line col (string_of_chars d.d_code) (hex_encode (string_of_chars d.d_msg))) ds)

(* ---------------- regex: <which> <hex string> -> submatch indices ---------------- *)
let run_regex () =
  try
    while true do
      let line = input_line stdin in
      match fields line with
      | [w; h] ->
        let s = hex_decode h in
        (match x_re_find (nat_of_int (int_of_string w)) (cs s) with
         | None -> print_endline "-"
         | Some caps ->
           (* whole match: group 0 is not recorded by the matcher; it spans from the search start to the end reached:
              all seven expressions are anchored at both ends, so it is 0..len *)
           let ngroups = match int_of_string w with 0 -> 3 | 1 | 5 | 6 -> 1 | _ -> 0 in
           let get n = let rec go = function [] -> None | (k, (a, b)) :: r -> if int_of_nat k = n then Some (int_of_nat a, int_of_nat b) else go r in go caps in
           let parts = ref [string_of_int 0; string_of_int (String.length s)] in
           for g = 1 to ngroups do
             (match get g with Some (a, b) -> parts := !parts @ [string_of_int a; string_of_int b] | None -> parts := !parts @ ["-1"; "-1"])
           done;
           print_endline (String.concat "," !parts))
      | _ -> print_endline "E"
    done
  with End_of_file -> ()

(* ---------------- annots <dump> <scan> <paths> <checks>: annotations and ignore markers per package ---------------- *)
let run_annots (dump : string) (scan : string) (paths : string) (checks : string) =
  let cfg = { scan_tests = (scan = "1"); exclude_paths = unhex_list paths; exclude_checks = unhex_list checks } in
  iter_sexps (read_file dump) (fun sx -> let p = conv_pkg sx in
      Printf.printf "A %s %s\n" (hex_encode p.lid) (hex_encode (ann_summary (x_read_all cfg p.lpkg)));
      match x_ignore_ops cfg p.lpkg with
      | None -> Printf.printf "P %s\n" (hex_encode p.lid)
      | Some ops ->
        let ms = List.filter_map (function
            | OpAdd (codes, s, e) ->
              let (f1, l1, c1) = locate p (int_of_z s) and (_, l2, c2) = locate p (int_of_z e) in
              Some (Printf.sprintf "%s:%s:%d:%d:%d:%d" (String.concat "," (List.map string_of_chars codes)) (Filename.basename f1) l1 c1 l2 c2)
            | OpGlobal _ -> None) ops in
        Printf.printf "I %s %s\n" (hex_encode p.lid) (hex_encode (String.concat ";" ms)))

let () =
  match Array.to_list Sys.argv with
  | _ :: "ignoreset" :: _ -> run_ignoreset ()
  | _ :: "regex" :: _ -> run_regex ()
  | _ :: "annots" :: dump :: scan :: paths :: checks :: _ -> run_annots dump scan paths checks
  | _ :: "analyze" :: dump :: scan :: paths :: checks :: _ -> run_analyze dump scan paths checks
  | _ :: "config" :: _ -> run_config ()
  | _ :: "reporter" :: _ -> run_reporter ()
  | _ -> prerr_endline "usage: modelrun <suite>"; exit 2
